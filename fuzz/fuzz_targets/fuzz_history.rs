#![no_main]
use libfuzzer_sys::fuzz_target;
use rdbv::checks::history::{exec_case, CaseOutcome};

fuzz_target!(|data: &[u8]| {
    let case = rdbv::fuzzdec::history_case(data);
    let o = rdbv::checks::history::fuzz_oracles();
    if let CaseOutcome::Fail(f, _) = exec_case(&case, o) {
        panic!("history violation at step {}: {}", f.step, f.what);
    }
});
