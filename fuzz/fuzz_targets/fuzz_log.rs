#![no_main]
use libfuzzer_sys::fuzz_target;

fuzz_target!(|data: &[u8]| {
    let case = rdbv::fuzzdec::log_case(data);
    if let Err(e) = rdbv::checks::logfmt::run_log_case(&case) {
        panic!("C12 violation: {e}");
    }
});
