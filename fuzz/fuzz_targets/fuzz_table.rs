#![no_main]
use libfuzzer_sys::fuzz_target;

fuzz_target!(|data: &[u8]| {
    let case = rdbv::fuzzdec::table_case(data);
    if let Err(e) = rdbv::checks::tablefmt::run_table_case(&case, true, true) {
        panic!("C13/C14 violation: {e}");
    }
});
