//! vcheck <id> <quick|thorough>          run a check (parent: replays regress/, spawns workers)
//! vcheck worker <id> <tier> <seed> <i> <n> <out>
//! vcheck replay <path>                  re-execute a saved case without proptest
use rdbv::checks;
use rdbv::runner::*;
use std::path::{Path, PathBuf};

struct StderrLog;
impl log::Log for StderrLog {
    fn enabled(&self, m: &log::Metadata) -> bool {
        m.level() <= log::max_level()
    }
    fn log(&self, r: &log::Record) {
        if self.enabled(r.metadata()) {
            eprintln!("[{} {}] {}", r.level(), std::thread::current().name().unwrap_or("?"), r.args());
        }
    }
    fn flush(&self) {}
}
static LOGGER: StderrLog = StderrLog;

fn main() {
    rdbv::guard::install_panic_hook();
    if let Ok(l) = std::env::var("VERIF_LOG") {
        let _ = log::set_logger(&LOGGER);
        log::set_max_level(match l.as_str() {
            "debug" => log::LevelFilter::Debug,
            "info" => log::LevelFilter::Info,
            "warn" => log::LevelFilter::Warn,
            _ => log::LevelFilter::Error,
        });
    }
    if std::env::var("VERIF_VERBOSE").is_ok() {
        rdbv::guard::VERBOSE.store(true, std::sync::atomic::Ordering::Relaxed);
    }
    let args: Vec<String> = std::env::args().collect();
    if args.len() < 2 {
        eprintln!("usage: vcheck <id> <quick|thorough> | replay <path> | list");
        std::process::exit(2);
    }
    match args[1].as_str() {
        "list" => {
            for id in checks::all_ids() {
                println!("{id}");
            }
        }
        "worker" => {
            let ctx = WorkerCtx {
                id: args[2].clone(),
                tier: Tier::parse(&args[3]).expect("tier"),
                seed: args[4].parse().expect("seed"),
                worker: args[5].parse().expect("worker"),
                workers: args[6].parse().expect("workers"),
            };
            let r = checks::worker(&ctx);
            std::fs::write(&args[7], serde_json::to_string(&r).unwrap()).unwrap();
            // leaked (hung) case threads must not keep the worker alive
            std::process::exit(0);
        }
        "replay" => {
            let path = PathBuf::from(&args[2]);
            let path = if path.is_absolute() { path } else { verif_root().join(path) };
            let s = std::fs::read_to_string(&path).expect("read replay file");
            let v: serde_json::Value = serde_json::from_str(&s).expect("parse replay file");
            let id = v["property"].as_str().unwrap_or("?").to_string();
            match checks::replay_value(&v) {
                Ok(()) => {
                    println!("replay of {} passed (property {id} held)", path.display());
                    std::process::exit(0);
                }
                Err(m) => {
                    println!("VIOLATION property={id} replay={}", path.display());
                    println!("  {m}");
                    std::process::exit(1);
                }
            }
        }
        id => {
            let tier = args
                .get(2)
                .cloned()
                .or_else(|| std::env::var("VERIF_TIER").ok())
                .and_then(|t| Tier::parse(&t))
                .unwrap_or(Tier::Quick);
            let seed: u64 = std::env::var("VERIF_SEED").ok().and_then(|s| s.parse().ok()).unwrap_or(0);
            let Some(meta) = checks::meta(id) else {
                eprintln!("unknown check {id}");
                std::process::exit(2);
            };
            let regress = |p: &Path| checks::history::regress_file(p);
            let code = run_parent(&meta, tier, seed, &regress);
            std::process::exit(code);
        }
    }
}
