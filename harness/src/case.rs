//! Plain-data case types of the single-client history engine, the key pool and value construction.

use serde::{Deserialize, Serialize};

#[derive(Clone, Copy, Debug, Serialize, Deserialize, PartialEq, Eq, Hash)]
pub struct Cfg {
    pub memtable: usize,
    pub file: u64,
    pub block: usize,
    pub reuse: bool,
}

pub const MEMTABLE_SIZES: &[usize] = &[512, 700, 1500, 5000, 100_000, 4 * 1024 * 1024];
pub const FILE_SIZES: &[u64] = &[400, 1024, 2048, 6000, 1024 * 1024];
pub const BLOCK_SIZES: &[usize] = &[16, 32, 128, 1024, 4096, 8192, 65_536];

/// Selector: a u16 mapped monotonically onto `0..len` at interpretation time so that every
/// generated (and every shrunk) case is valid whatever the surrounding operations are.
pub type Sel = u16;

pub fn pick(sel: Sel, len: usize) -> usize {
    debug_assert!(len > 0);
    ((sel as usize) * len) >> 16
}

/// Length/shape of a generated value. The bytes are a function of the per-case write counter.
#[derive(Clone, Copy, Debug, Serialize, Deserialize, PartialEq, Eq, Hash)]
pub struct Val {
    pub len: u32,
    pub compressible: bool,
}

#[derive(Clone, Debug, Serialize, Deserialize, PartialEq, Eq, Hash)]
pub enum Cur {
    First,
    Last,
    /// Seek to a universe key
    Seek(Sel),
    /// Seek to arbitrary bytes (absent keys, before-first, after-last)
    SeekRaw(Vec<u8>),
    Next,
    Prev,
}

#[derive(Clone, Debug, Serialize, Deserialize, PartialEq, Eq, Hash)]
pub enum Desc {
    NumFiles(u8),
    SSTables,
    Stats,
}

#[derive(Clone, Debug, Serialize, Deserialize, PartialEq, Eq, Hash)]
pub enum Op {
    Put(Sel, Val),
    Delete(Sel),
    Batch(Vec<(Sel, Option<Val>)>),
    Get(Sel),
    GetAll,
    /// compact_range over the reserved range above every pool key: memtable flush only
    Flush,
    /// compact_range(lo..hi) with optional open ends (selectors into the universe)
    Compact(Option<Sel>, Option<Sel>),
    /// n puts to consecutive universe keys starting at `start`
    Fill { start: Sel, n: u8, val: Val },
    /// n gets of one key (seek-triggered compaction needs > 100)
    Hammer(Sel, u8),
    /// n fresh iterators, each seeking to one key (every new iterator samples the first entry it
    /// reads for seek-triggered compaction; > 100 samples use up a file's allowance)
    IterHammer(Sel, u8),
    Reopen(Cfg),
    Snap,
    Release(Sel),
    /// New iterator at latest (None) or at a live snapshot
    IterNew(Option<Sel>),
    IterOp(Sel, Cur),
    IterDrop(Sel),
    Descriptor(Desc),
    WaitIdle,
    /// A put whose value length is chosen at execution time so that the live write-ahead log ends
    /// `r` bytes (1..=6: less than a fragment header) before the end of its current 32 KiB block.
    /// The next append to that log (by the same or a re-opened writer) has to pad the block first.
    PutTail(Sel, u8),
}

#[derive(Clone, Debug, Serialize, Deserialize, PartialEq, Eq, Hash)]
pub struct Case {
    pub cfg: Cfg,
    pub universe: Vec<Vec<u8>>,
    pub ops: Vec<Op>,
}

/// Reserved range above every pool key, used to flush the memtable and nothing else.
pub const RESERVED_LO: &[u8] = &[0xff, 0xff, 0xff, 0xff, 0x00];
pub const RESERVED_HI: &[u8] = &[0xff, 0xff, 0xff, 0xff, 0x01];

/// The fixed key pool, sorted and de-duplicated. Contains the shapes the code treats specially.
pub fn key_pool() -> Vec<Vec<u8>> {
    let mut pool: Vec<Vec<u8>> = vec![
        vec![],
        vec![0x00],
        vec![0x00, 0x00],
        vec![0x61],
        vec![0xff],
        vec![0xff, 0xff],
        vec![0xff, 0xff, 0x01],
        vec![0xff, 0xff, 0xff],
        b"a".to_vec(),
        b"ab".to_vec(),
        b"abc".to_vec(),
        b"abd".to_vec(),
        b"b".to_vec(),
        b"b\0".to_vec(),
        b"b\0\0".to_vec(),
        b"k\x00".to_vec(),
        b"k\x01".to_vec(),
        b"k\xfe".to_vec(),
        b"k\xff".to_vec(),
        b"k\xff\xff".to_vec(),
        b"zzzzzzzz".to_vec(),
        b"zzzzzzzy".to_vec(),
        vec![b'L'; 300],
        // lengths at which a length prefix grows to two bytes: 127/128 for the user key (WAL batch
        // elements), 119/120 for the internal key = user key + 8 (table block entries)
        vec![b'M'; 119],
        vec![b'M'; 120],
        vec![b'N'; 127],
        vec![b'N'; 128],
        vec![0x80, 0x81, 0xfe],
        b"\xc3\x28".to_vec(),
    ];
    for i in 0..40u32 {
        pool.push(format!("{:016}", i * 37).into_bytes());
    }
    for i in 0..20u32 {
        pool.push(format!("key{:03}", i * 7).into_bytes());
    }
    for i in 0..10u32 {
        pool.push(format!("m{}", "x".repeat(i as usize)).into_bytes());
    }
    pool.sort();
    pool.dedup();
    for k in &pool {
        assert!(k.as_slice() < RESERVED_LO);
    }
    pool
}

fn xorshift(mut x: u64) -> u64 {
    x ^= x << 13;
    x ^= x >> 7;
    x ^= x << 17;
    x
}

/// Value bytes for write number `counter`. For `len >= 8` the first 8 bytes are the counter, so
/// every such value is unique within a case and identifies the write it came from.
pub fn make_value(counter: u64, v: Val) -> Vec<u8> {
    let len = v.len as usize;
    let mut out = Vec::with_capacity(len);
    let mut x = counter.wrapping_mul(0x9E37_79B9_7F4A_7C15) | 1;
    if len >= 8 {
        out.extend_from_slice(&counter.to_be_bytes());
    }
    if v.compressible {
        let b = (counter % 251) as u8;
        while out.len() < len {
            out.push(b);
        }
    } else {
        while out.len() < len {
            x = xorshift(x);
            let bytes = x.to_le_bytes();
            let take = (len - out.len()).min(8);
            out.extend_from_slice(&bytes[..take]);
        }
    }
    out
}

fn varint_len(n: u64) -> u64 {
    let mut n = n;
    let mut l = 1;
    while n >= 128 {
        n >>= 7;
        l += 1;
    }
    l
}

/// Value length for `Op::PutTail`: a single-put batch record (7-byte fragment header, 8-byte
/// sequence number, operation count, operation byte, length-prefixed key and value) appended to a
/// log of `wal_size` bytes ends `r` bytes before the block boundary. `None` if the current block
/// has no room for such a record (the caller then writes an ordinary value).
pub fn tail_value_len(wal_size: u64, key_len: usize, r: u8) -> Option<u32> {
    let r = (r as u64).clamp(1, 6);
    let used = wal_size % 32768;
    let fixed = 7 + 8 + 1 + 1 + varint_len(key_len as u64) + key_len as u64;
    let room = 32768u64.checked_sub(used + r + fixed)?;
    // room = varint_len(vlen) + vlen
    for vl in 1..=3u64 {
        if room > vl {
            let vlen = room - vl;
            if varint_len(vlen) == vl {
                return Some(vlen as u32);
            }
        }
    }
    None
}

pub fn hash_json<T: Serialize>(t: &T) -> u64 {
    use std::hash::{Hash, Hasher};
    let s = serde_json::to_string(t).unwrap();
    let mut h = std::collections::hash_map::DefaultHasher::new();
    s.hash(&mut h);
    h.finish()
}

pub fn hex(b: &[u8]) -> String {
    let mut s = String::new();
    for x in b.iter().take(24) {
        s.push_str(&format!("{:02x}", x));
    }
    if b.len() > 24 {
        s.push_str(&format!("..({}B)", b.len()));
    }
    s
}

/// serde helper: byte vectors as hex strings (keeps replay files small)
pub mod hexbytes {
    use serde::{Deserialize, Deserializer, Serializer};
    pub fn serialize<S: Serializer>(b: &Vec<u8>, s: S) -> Result<S::Ok, S::Error> {
        let mut out = String::with_capacity(b.len() * 2);
        for x in b {
            out.push_str(&format!("{:02x}", x));
        }
        s.serialize_str(&out)
    }
    pub fn deserialize<'de, D: Deserializer<'de>>(d: D) -> Result<Vec<u8>, D::Error> {
        let s = String::deserialize(d)?;
        let mut out = Vec::with_capacity(s.len() / 2);
        let b = s.as_bytes();
        let mut i = 0;
        while i + 1 < b.len() {
            let h = (b[i] as char).to_digit(16).ok_or_else(|| serde::de::Error::custom("bad hex"))?;
            let l = (b[i + 1] as char).to_digit(16).ok_or_else(|| serde::de::Error::custom("bad hex"))?;
            out.push((h * 16 + l) as u8);
            i += 2;
        }
        Ok(out)
    }
}

/// serde helper: list of (key, value) byte pairs as hex strings
pub mod hexpairs {
    use serde::{Deserialize, Deserializer, Serialize, Serializer};
    fn enc(b: &[u8]) -> String {
        let mut out = String::with_capacity(b.len() * 2);
        for x in b {
            out.push_str(&format!("{:02x}", x));
        }
        out
    }
    fn dec(s: &str) -> Vec<u8> {
        let b = s.as_bytes();
        let mut out = Vec::with_capacity(b.len() / 2);
        let mut i = 0;
        while i + 1 < b.len() {
            let h = (b[i] as char).to_digit(16).unwrap_or(0);
            let l = (b[i + 1] as char).to_digit(16).unwrap_or(0);
            out.push((h * 16 + l) as u8);
            i += 2;
        }
        out
    }
    pub fn serialize<S: Serializer>(v: &Vec<Vec<(Vec<u8>, Vec<u8>)>>, s: S) -> Result<S::Ok, S::Error> {
        let x: Vec<Vec<(String, String)>> =
            v.iter().map(|m| m.iter().map(|(k, v)| (enc(k), enc(v))).collect()).collect();
        x.serialize(s)
    }
    pub fn deserialize<'de, D: Deserializer<'de>>(d: D) -> Result<Vec<Vec<(Vec<u8>, Vec<u8>)>>, D::Error> {
        let x: Vec<Vec<(String, String)>> = Vec::deserialize(d)?;
        Ok(x.into_iter().map(|m| m.into_iter().map(|(k, v)| (dec(&k), dec(&v))).collect()).collect())
    }
}
