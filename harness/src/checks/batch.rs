//! C06: no reader ever observes part of a batch.

use crate::case::{hash_json, Cfg, Val, RESERVED_HI, RESERVED_LO};
use crate::engine::options;
use crate::guard::{run_guarded, Guarded};
use crate::memfs::MemFs;
use crate::runner::*;
use crate::sched::{self, Directive, SchedState};
use proptest::prelude::*;
use proptest::sample::select;
use proptest::test_runner::{Config, RngSeed, TestCaseError, TestError, TestRunner};
use raindb::verif::Counter;
use raindb::{Batch, RainDBError, RainDbIterator, ReadOptions, WriteOptions, DB};
use serde::{Deserialize, Serialize};
use serde_json::{json, Value};
use std::cell::RefCell;
use std::collections::BTreeMap;
use std::sync::atomic::{AtomicBool, AtomicU64, Ordering};
use std::sync::{Arc, Barrier, Mutex};
use std::time::Duration;

#[derive(Clone, Debug, Serialize, Deserialize, PartialEq, Eq, Hash)]
pub enum WOp {
    /// one batch writing the writer's next counter to every key of its group (value padding)
    WriteAll(u16),
    /// one batch that writes every key twice: first a transient marker value, then the final one
    WriteAllTwice(u16),
    /// one batch deleting every key of the group
    DeleteAll,
    Flush,
    CompactAll,
}

#[derive(Clone, Debug, Serialize, Deserialize, PartialEq, Eq, Hash)]
pub enum RKind {
    /// take a snapshot, get every key at it (forward key order), release
    SnapshotGets,
    /// same, keys visited in reverse order
    SnapshotGetsReverse,
    /// create an iterator and scan everything
    IterScan,
    /// plain gets without a snapshot: only checked for transient (overwritten inside a batch) values
    PlainGets,
    /// C03 under concurrency: take a snapshot, an iterator at it and an implicit iterator; read
    /// everything, let the writers move on, read everything again: the snapshot's gets must not
    /// change, get and iteration must agree at the snapshot, an iterator must repeat itself
    SnapshotReread,
}

#[derive(Clone, Debug, Serialize, Deserialize, PartialEq, Eq, Hash)]
pub struct BatchCase {
    pub cfg: Cfg,
    /// keys per group; one group (and one writer) per entry
    pub groups: Vec<u8>,
    pub writers: Vec<Vec<WOp>>,
    pub readers: Vec<Vec<RKind>>,
    pub directives: Vec<Directive>,
}

fn gkey(g: usize, j: usize) -> Vec<u8> {
    format!("g{g}k{j:02}").into_bytes()
}

fn gvalue(g: usize, c: u64, pad: u16) -> Vec<u8> {
    let mut v = Vec::with_capacity(16 + pad as usize);
    v.extend_from_slice(&(g as u64).to_be_bytes());
    v.extend_from_slice(&c.to_be_bytes());
    let filler = crate::case::make_value(c * 31 + g as u64, Val { len: pad as u32, compressible: false });
    v.extend_from_slice(&filler);
    v
}

/// counters at or above this mark are values that a later operation of the same batch overwrites
const TRANSIENT: u64 = 1 << 40;

fn decode(v: &[u8]) -> Option<(u64, u64)> {
    if v.len() < 16 {
        return None;
    }
    Some((u64::from_be_bytes(v[..8].try_into().unwrap()), u64::from_be_bytes(v[8..16].try_into().unwrap())))
}

fn scan_all<I: RainDbIterator<Key = Vec<u8>, Error = RainDBError>>(it: &mut I) -> Result<BTreeMap<Vec<u8>, Vec<u8>>, String> {
    let mut m = BTreeMap::new();
    it.seek_to_first().map_err(|e| format!("seek_to_first returned {e:?}"))?;
    while it.is_valid() {
        let (k, v) = it.current().unwrap();
        m.insert(k.clone(), v.clone());
        it.next();
    }
    Ok(m)
}

fn show(v: &Option<Vec<u8>>) -> String {
    match v {
        None => "absent".into(),
        Some(v) => match decode(v) {
            Some((g, c)) => format!("batch {c} of group {g}"),
            None => format!("{} bytes", v.len()),
        },
    }
}

#[derive(Default, Clone, Debug)]
pub struct BStats {
    pub nontrivial: bool,
    pub reads: u64,
    pub reads_while_writer_held: u64,
    pub holds: u64,
    pub classes: Vec<&'static str>,
    /// SnapshotReread rounds during which the latest state of some group changed
    pub rereads_spanning_a_write: u64,
}

pub fn run_case(case: &BatchCase) -> Result<BStats, String> {
    crate::engine::set_level_limits(crate::engine::level_code_for(&case.cfg));
    let fs = Arc::new(MemFs::new(false));
    let db = Arc::new(DB::open(options(&fs, &case.cfg)).map_err(|e| format!("open failed: {e:?}"))?);
    let nw = case.writers.len().min(case.groups.len());
    let nr = case.readers.len();
    let groups: Vec<usize> = case.groups.iter().map(|g| (*g as usize).clamp(2, 8)).collect();
    let st = SchedState::new(case.directives.clone(), nw + nr);
    // holds wait for the readers only: other writers queue behind a held writer and cannot finish
    for w in 0..nw {
        st.done[w].store(true, Ordering::SeqCst);
    }
    let c0 = raindb::verif::counters();
    sched::install(st.clone());
    let writers_left = Arc::new(AtomicU64::new(nw as u64));
    let errors: Arc<Mutex<Vec<String>>> = Arc::new(Mutex::new(vec![]));
    let reads = Arc::new(AtomicU64::new(0));
    let reads_held = Arc::new(AtomicU64::new(0));
    let rereads_moved = Arc::new(AtomicU64::new(0));
    let stop = Arc::new(AtomicBool::new(false));
    let barrier = Arc::new(Barrier::new(nw + nr));
    let mut handles = vec![];
    for w in 0..nw {
        let (db, prog, barrier, errors, writers_left, gsize) =
            (db.clone(), case.writers[w].clone(), barrier.clone(), errors.clone(), writers_left.clone(), groups[w]);
        handles.push(std::thread::Builder::new().name(format!("writer-{w}")).spawn(move || {
            sched::set_role(w as i32);
            barrier.wait();
            let mut c = 0u64;
            for op in prog {
                match op {
                    WOp::WriteAll(pad) => {
                        c += 1;
                        let mut b = Batch::new();
                        for j in 0..gsize {
                            b.add_put(gkey(w, j), gvalue(w, c, pad));
                        }
                        if let Err(e) = db.apply(WriteOptions { synchronous: (c + w as u64) % 3 == 0 }, b) {
                            errors.lock().unwrap().push(format!("apply returned {e:?} in a fault-free run"));
                        }
                    }
                    WOp::WriteAllTwice(pad) => {
                        c += 1;
                        let mut b = Batch::new();
                        for j in 0..gsize {
                            b.add_put(gkey(w, j), gvalue(w, TRANSIENT + c, pad));
                        }
                        for j in 0..gsize {
                            b.add_put(gkey(w, j), gvalue(w, c, pad));
                        }
                        if let Err(e) = db.apply(WriteOptions { synchronous: (c + w as u64) % 3 == 0 }, b) {
                            errors.lock().unwrap().push(format!("apply returned {e:?} in a fault-free run"));
                        }
                    }
                    WOp::DeleteAll => {
                        let mut b = Batch::new();
                        for j in 0..gsize {
                            b.add_delete(gkey(w, j));
                        }
                        if let Err(e) = db.apply(WriteOptions { synchronous: (c + w as u64) % 3 == 0 }, b) {
                            errors.lock().unwrap().push(format!("apply returned {e:?} in a fault-free run"));
                        }
                    }
                    WOp::Flush => db.compact_range(Some(RESERVED_LO)..Some(RESERVED_HI)),
                    WOp::CompactAll => db.compact_range(None..None),
                }
            }
            writers_left.fetch_sub(1, Ordering::SeqCst);
        }).unwrap());
    }
    for r in 0..nr {
        let role = nw + r;
        let (db, prog, barrier, errors, writers_left, groups, st, reads, reads_held, stop, rereads_moved) = (
            db.clone(), case.readers[r].clone(), barrier.clone(), errors.clone(), writers_left.clone(), groups.clone(), st.clone(), reads.clone(), reads_held.clone(), stop.clone(), rereads_moved.clone(),
        );
        handles.push(std::thread::Builder::new().name(format!("reader-{r}")).spawn(move || {
            sched::set_role(role as i32);
            barrier.wait();
            let mut last_seen: BTreeMap<usize, u64> = BTreeMap::new();
            let mut n = 0usize;
            let mut check = |obs: &BTreeMap<usize, Vec<Option<u64>>>, how: &str| {
                for (g, vals) in obs {
                    if let Some(t) = vals.iter().flatten().find(|c| **c >= TRANSIENT) {
                        errors.lock().unwrap().push(format!(
                            "{how}: a reader saw a value of group {g} that the same batch overwrites (batch {} half applied)",
                            t - TRANSIENT
                        ));
                        stop.store(true, Ordering::SeqCst);
                        return;
                    }
                    if how == "plain gets" {
                        continue;
                    }
                    let first = vals[0];
                    if vals.iter().any(|v| *v != first) {
                        errors.lock().unwrap().push(format!(
                            "{how}: the keys of one batch group (writer {g}) show different batches at the same read point: {:?} (None = absent)",
                            vals
                        ));
                        stop.store(true, Ordering::SeqCst);
                        return;
                    }
                    if let Some(c) = first {
                        let prev = last_seen.get(g).copied().unwrap_or(0);
                        if c < prev {
                            errors.lock().unwrap().push(format!("{how}: group {g} went backwards for one reader: batch {prev} then batch {c}"));
                            stop.store(true, Ordering::SeqCst);
                            return;
                        }
                        last_seen.insert(*g, c);
                    }
                }
            };
            loop {
                if stop.load(Ordering::SeqCst) {
                    break;
                }
                let writers_done = writers_left.load(Ordering::SeqCst) == 0;
                if writers_done && n >= prog.len().max(2) {
                    break;
                }
                if n > 400 {
                    std::thread::sleep(Duration::from_micros(300));
                }
                if n > 5000 {
                    break;
                }
                let kind = if prog.is_empty() { RKind::SnapshotGets } else { prog[n % prog.len()].clone() };
                n += 1;
                let held = st.writer_held.load(Ordering::SeqCst);
                let mut obs: BTreeMap<usize, Vec<Option<u64>>> = BTreeMap::new();
                match kind {
                    RKind::SnapshotGets | RKind::SnapshotGetsReverse => {
                        let snap = db.get_snapshot();
                        let mut keys: Vec<(usize, usize)> = vec![];
                        for (g, sz) in groups.iter().enumerate() {
                            for j in 0..*sz {
                                keys.push((g, j));
                            }
                        }
                        if kind == RKind::SnapshotGetsReverse {
                            keys.reverse();
                        }
                        for (g, j) in keys {
                            let ro = ReadOptions { fill_cache: true, snapshot: Some(snap.clone()) };
                            match db.get(ro, &gkey(g, j)) {
                                Ok(v) => match decode(&v) {
                                    Some((vg, c)) if vg == g as u64 => obs.entry(g).or_default().push(Some(c)),
                                    _ => errors.lock().unwrap().push(format!("get returned a value nobody wrote for group {g}")),
                                },
                                Err(RainDBError::KeyNotFound) => obs.entry(g).or_default().push(None),
                                Err(e) => errors.lock().unwrap().push(format!("get returned {e:?} in a fault-free run")),
                            }
                        }
                        db.release_snapshot(snap);
                        check(&obs, "snapshot gets");
                    }
                    RKind::PlainGets => {
                        for (g, sz) in groups.iter().enumerate() {
                            for j in 0..*sz {
                                match db.get(ReadOptions::default(), &gkey(g, j)) {
                                    Ok(v) => match decode(&v) {
                                        Some((vg, c)) if vg == g as u64 => obs.entry(g).or_default().push(Some(c)),
                                        _ => errors.lock().unwrap().push(format!("get returned a value nobody wrote for group {g}")),
                                    },
                                    Err(RainDBError::KeyNotFound) => obs.entry(g).or_default().push(None),
                                    Err(e) => errors.lock().unwrap().push(format!("get returned {e:?} in a fault-free run")),
                                }
                            }
                        }
                        check(&obs, "plain gets");
                    }
                    RKind::SnapshotReread => {
                        let all_keys: Vec<Vec<u8>> =
                            groups.iter().enumerate().flat_map(|(g, sz)| (0..*sz).map(move |j| gkey(g, j))).collect();
                        let gets = |snap: Option<&raindb::Snapshot>| -> Result<Vec<Option<Vec<u8>>>, String> {
                            let mut out = vec![];
                            for k in &all_keys {
                                let ro = ReadOptions { fill_cache: true, snapshot: snap.cloned() };
                                match db.get(ro, k) {
                                    Ok(v) => out.push(Some(v)),
                                    Err(RainDBError::KeyNotFound) => out.push(None),
                                    Err(e) => return Err(format!("get returned {e:?} in a fault-free run")),
                                }
                            }
                            Ok(out)
                        };
                        let scan = scan_all;
                        let snap = db.get_snapshot();
                        let round = (|| -> Result<bool, String> {
                            let mut it_s = db
                                .new_iterator(ReadOptions { fill_cache: true, snapshot: Some(snap.clone()) })
                                .map_err(|e| format!("new_iterator returned {e:?}"))?;
                            let mut it_i = db.new_iterator(ReadOptions::default()).map_err(|e| format!("new_iterator returned {e:?}"))?;
                            let latest0 = gets(None)?;
                            let g1 = gets(Some(&snap))?;
                            let i1 = scan(&mut it_i)?;
                            // let the writers move on (affects coverage only)
                            std::thread::sleep(Duration::from_millis(2));
                            let g2 = gets(Some(&snap))?;
                            let s1 = scan(&mut it_s)?;
                            let i2 = scan(&mut it_i)?;
                            let latest1 = gets(None)?;
                            for (idx, k) in all_keys.iter().enumerate() {
                                if g1[idx] != g2[idx] {
                                    return Err(format!(
                                        "C03: two gets of {} at the same snapshot returned different results: first {}, later {}",
                                        String::from_utf8_lossy(k),
                                        show(&g1[idx]),
                                        show(&g2[idx])
                                    ));
                                }
                                if s1.get(k) != g1[idx].as_ref() {
                                    return Err(format!(
                                        "C03: get and iteration disagree at the same snapshot for {}: get {}, iterator {}",
                                        String::from_utf8_lossy(k),
                                        show(&g1[idx]),
                                        show(&s1.get(k).cloned())
                                    ));
                                }
                            }
                            if i1 != i2 {
                                return Err("C03: an iterator returned different contents on its second pass over the database".into());
                            }
                            Ok(latest0 != latest1)
                        })();
                        db.release_snapshot(snap);
                        match round {
                            Ok(moved) => {
                                if moved {
                                    rereads_moved.fetch_add(1, Ordering::SeqCst);
                                }
                            }
                            Err(e) => {
                                errors.lock().unwrap().push(e);
                                stop.store(true, Ordering::SeqCst);
                            }
                        }
                    }
                    RKind::IterScan => {
                        match db.new_iterator(ReadOptions::default()) {
                            Ok(mut it) => {
                                let mut seen: BTreeMap<(usize, usize), u64> = BTreeMap::new();
                                if let Err(e) = it.seek_to_first() {
                                    errors.lock().unwrap().push(format!("seek_to_first returned {e:?}"));
                                }
                                while it.is_valid() {
                                    let (k, v) = it.current().unwrap();
                                    let ks = String::from_utf8_lossy(k).to_string();
                                    if let (Some(g), Some(j)) = (ks.get(1..2).and_then(|s| s.parse::<usize>().ok()), ks.get(3..5).and_then(|s| s.parse::<usize>().ok())) {
                                        if let Some((_, c)) = decode(v) {
                                            seen.insert((g, j), c);
                                        }
                                    }
                                    it.next();
                                }
                                for (g, sz) in groups.iter().enumerate() {
                                    for j in 0..*sz {
                                        obs.entry(g).or_default().push(seen.get(&(g, j)).copied());
                                    }
                                }
                                check(&obs, "iterator scan");
                            }
                            Err(e) => errors.lock().unwrap().push(format!("new_iterator returned {e:?}")),
                        }
                    }
                }
                reads.fetch_add(1, Ordering::SeqCst);
                if held {
                    reads_held.fetch_add(1, Ordering::SeqCst);
                }
            }
            st.done[role].store(true, Ordering::SeqCst);
        }).unwrap());
    }
    let mut panicked = false;
    for h in handles {
        if h.join().is_err() {
            panicked = true;
        }
    }
    sched::uninstall();
    if panicked {
        return Err("a client thread panicked inside a database call".into());
    }
    if let Some(e) = errors.lock().unwrap().first() {
        return Err(e.clone());
    }
    let c1 = raindb::verif::counters();
    let d = |c: Counter| c1[c as usize] - c0[c as usize];
    let mut stats = BStats {
        reads: reads.load(Ordering::SeqCst),
        reads_while_writer_held: reads_held.load(Ordering::SeqCst),
        holds: st.hold_count.load(Ordering::SeqCst),
        rereads_spanning_a_write: rereads_moved.load(Ordering::SeqCst),
        ..Default::default()
    };
    stats.nontrivial = stats.reads_while_writer_held > 0;
    if stats.nontrivial {
        stats.classes.push("read_point_taken_while_a_writer_was_held_inside_apply");
    }
    if d(Counter::GroupCommitMulti) > 0 {
        stats.classes.push("batches_merged_into_a_group_commit");
    }
    if d(Counter::MemtableRotated) > 0 {
        stats.classes.push("memtable_rotated");
    }
    db.verif_wait_idle(Duration::from_secs(600));
    drop(db);
    Ok(stats)
}

fn strategy() -> BoxedStrategy<BatchCase> {
    (1usize..=3, 1usize..=3)
        .prop_flat_map(|(nw, nr)| {
            let wop = prop_oneof![
                10 => (0u16..300).prop_map(WOp::WriteAll),
                4 => (0u16..200).prop_map(WOp::WriteAllTwice),
                2 => Just(WOp::DeleteAll),
                2 => Just(WOp::Flush),
                1 => Just(WOp::CompactAll),
            ];
            let rk = prop_oneof![Just(RKind::SnapshotGets), Just(RKind::SnapshotGetsReverse), Just(RKind::IterScan), Just(RKind::PlainGets)];
            let dir = (
                0..nw as i32,
                select(vec!["write.before_wal", "write.after_wal", "write.mid_memtable", "write.mid_memtable", "write.after_memtable"]),
                0u32..12,
                15u32..90,
            )
                .prop_map(|(role, p, nth, max_hold_ms)| Directive { role, point: p.to_string(), nth, max_hold_ms, linger_ms: 0, every: 0 });
            // a reader parked inside a get (after it captured its view) while flushes, compactions
            // and obsolete-file deletion go on: its snapshot read must still be served
            let rdir = (
                nw as i32..(nw + nr) as i32,
                select(vec!["get.unlocked", "get.before_version"]),
                0u32..40,
                10u32..50,
            )
                .prop_map(|(role, p, nth, max_hold_ms)| Directive { role, point: p.to_string(), nth, max_hold_ms, linger_ms: 0, every: 0 });
            let dirs = (prop::collection::vec(dir, 1..=4), prop::collection::vec(rdir, 0..=2)).prop_map(|(mut a, b)| {
                a.extend(b);
                a
            });
            (
                (select(vec![512usize, 700, 1500, 100_000]), select(vec![400u64, 1024, 6000]), select(vec![16usize, 128, 4096]), any::<bool>())
                    .prop_map(|(memtable, file, block, reuse)| Cfg { memtable, file, block, reuse }),
                prop::collection::vec(2u8..=8, nw),
                prop::collection::vec(prop::collection::vec(wop, 2..10), nw),
                prop::collection::vec(prop::collection::vec(rk, 1..4), nr),
                dirs,
            )
        })
        .prop_map(|(cfg, groups, writers, readers, directives)| BatchCase { cfg, groups, writers, readers, directives })
        .boxed()
}

enum Outcome {
    Pass(BStats),
    Fail(String),
    Hung(String),
}

fn guarded(case: &BatchCase) -> Outcome {
    let c = case.clone();
    let g = run_guarded("batch-case", move || run_case(&c));
    sched::uninstall();
    match g {
        Guarded::Done(Ok(s)) => Outcome::Pass(s),
        Guarded::Done(Err(e)) => Outcome::Fail(e),
        Guarded::Panicked(m) => Outcome::Fail(format!("a call panicked: {m}")),
        Guarded::Hung(m) => Outcome::Hung(m),
    }
}

pub fn worker(ctx: &WorkerCtx) -> WorkerResult {
    let cases = match ctx.tier {
        Tier::Quick => 3200u64,
        Tier::Thorough => 60_000,
    };
    let cases = std::env::var("VERIF_CASES").ok().and_then(|s| s.parse().ok()).unwrap_or(cases);
    let res = RefCell::new(WorkerResult::default());
    campaign(ctx, "C06", strategy(), cases, 6, &res);
    res.into_inner()
}

/// C03 under concurrency: snapshots and iterators taken while writers are held inside apply.
pub fn worker_c03_conc(ctx: &WorkerCtx, res: &RefCell<WorkerResult>) {
    if !res.borrow().violations.is_empty() {
        return;
    }
    let cases = match ctx.tier {
        Tier::Quick => 1600u64,
        Tier::Thorough => 40_000,
    };
    let cases = std::env::var("VERIF_CASES").ok().and_then(|s| s.parse::<u64>().ok()).map(|c| (c / 6).max(1)).unwrap_or(cases);
    campaign(ctx, "C03", strategy_c03(), cases, 33, res);
}

fn strategy_c03() -> BoxedStrategy<BatchCase> {
    (strategy(), prop::collection::vec(prop::collection::vec(Just(RKind::SnapshotReread), 1..2), 1..=2))
        .prop_map(|(mut c, readers)| {
            c.readers = readers;
            // directives that referred to readers beyond the new reader count simply never fire
            c
        })
        .boxed()
}

fn campaign(ctx: &WorkerCtx, id: &'static str, strat: BoxedStrategy<BatchCase>, cases: u64, stream: u64, res: &RefCell<WorkerResult>) {
    let failed = RefCell::new(false);
    let first: RefCell<Option<(BatchCase, String)>> = RefCell::new(None);
    let mut runner = TestRunner::new(Config {
        cases: ctx.share(cases).max(1) as u32,
        rng_seed: RngSeed::Fixed(ctx.derived_seed(stream)),
        failure_persistence: None,
        max_shrink_iters: 150,
        ..Config::default()
    });
    let outcome = runner.run(&strat, |case| {
        let out = guarded(&case);
        let counting = !*failed.borrow();
        let mut r = res.borrow_mut();
        if counting {
            r.evaluations += 1;
        }
        match out {
            Outcome::Pass(st) => {
                if counting {
                    for c in &st.classes {
                        r.bump(c);
                    }
                    *r.classes.entry("reads_total".into()).or_insert(0) += st.reads;
                    *r.classes.entry("reads_taken_while_writer_held".into()).or_insert(0) += st.reads_while_writer_held;
                    *r.classes.entry("snapshot_rereads_spanning_a_write".into()).or_insert(0) += st.rereads_spanning_a_write;
                    let nontrivial = if id == "C03" { st.rereads_spanning_a_write > 0 || st.nontrivial } else { st.nontrivial };
                    if nontrivial {
                        r.nontrivial_hashes.push(hash_json(&case));
                        if r.samples.len() < if id == "C03" { 4 } else { 2 } {
                            r.samples.push(serde_json::to_value(&case).unwrap());
                        }
                    }
                }
                Ok(())
            }
            Outcome::Fail(e) => {
                if counting {
                    *first.borrow_mut() = Some((case.clone(), e.clone()));
                }
                *failed.borrow_mut() = true;
                Err(TestCaseError::fail(e))
            }
            Outcome::Hung(m) => {
                if counting {
                    r.inconclusive.push(format!("a call did not return (C09's property): {m}"));
                }
                Ok(())
            }
        }
    });
    if let Err(TestError::Fail(reason, case)) = outcome {
        let mut msg = reason.message().to_string();
        let mut case = case;
        let mut confirmed = false;
        for _ in 0..5 {
            if let Outcome::Fail(e) = guarded(&case) {
                msg = e;
                confirmed = true;
                break;
            }
        }
        if !confirmed {
            if let Some((c, m)) = first.borrow().clone() {
                case = c;
                msg = m;
            }
        }
        let body = json!({"property": id, "engine": "batch", "case": case, "message": msg});
        let path = write_replay(id, ctx.seed, ctx.worker, stream as usize, &body);
        res.borrow_mut().violations.push(ViolationRec { replay: path, message: msg });
    }
}

pub fn replay(v: &Value) -> Result<(), String> {
    let case: BatchCase = serde_json::from_value(v["case"].clone()).map_err(|e| e.to_string())?;
    // schedule-dependent cases are repeated; a deterministic hand-written case may ask for fewer repeats
    let repeats = v["repeats"].as_u64().unwrap_or(20);
    for _ in 0..repeats {
        if let Outcome::Fail(e) = guarded(&case) {
            return Err(e);
        }
    }
    Ok(())
}
