//! C05 (linearizability), C06 (batch atomicity), C09 part (ii)/(iii) (sustained concurrent load, close).

use crate::case::{hash_json, hex, make_value, Cfg, Val, RESERVED_HI, RESERVED_LO};
use crate::engine::options;
use crate::guard::{run_guarded, Guarded};
use crate::lin::{linearizable, simple_witness, KKind, KOp};
use crate::memfs::MemFs;
use crate::runner::*;
use crate::sched::{self, Directive, SchedState};
use proptest::prelude::*;
use proptest::sample::select;
use proptest::test_runner::{Config, RngSeed, TestCaseError, TestError, TestRunner};
use raindb::verif::Counter;
use raindb::{Batch, RainDBError, RainDbIterator, ReadOptions, WriteOptions, DB};
use serde::{Deserialize, Serialize};
use serde_json::{json, Value};
use std::cell::RefCell;
use std::collections::BTreeMap;
use std::sync::atomic::{AtomicU64, Ordering};
use std::sync::{Arc, Barrier, Mutex};
use std::time::Duration;

pub const KEYS: &[&[u8]] = &[b"a", b"ab", b"", b"k\xff", b"0000000000000037", b"zzzzzzzz"];

#[derive(Clone, Debug, Serialize, Deserialize, PartialEq, Eq, Hash)]
pub enum COp {
    Put(u8, u16),
    /// put of 40 kB + n kB (group-commit size limits, values larger than the memtable)
    PutBig(u8, u8),
    Delete(u8),
    Batch(Vec<(u8, Option<u16>)>),
    Get(u8),
    Flush,
    CompactAll,
    Scan,
}

#[derive(Clone, Debug, Serialize, Deserialize, PartialEq, Eq, Hash)]
pub struct ConcCase {
    pub cfg: Cfg,
    pub nkeys: u8,
    pub programs: Vec<Vec<COp>>,
    pub directives: Vec<Directive>,
    /// fail the n-th write to a write-ahead log (1-based) and every later one; None = fault free
    #[serde(default)]
    pub wal_fault: Option<u8>,
    /// before the programs start: this many 300-byte puts are written through a 4 MiB memtable and
    /// the database is closed, so that the open with the case's small memtable replays them into a
    /// pile of level-0 files (level-0 slowdown/stop triggers while the first compaction runs)
    #[serde(default)]
    pub preload: u16,
    /// bit ((5 * thread + op index) % 32) set: that write is issued with WriteOptions::synchronous
    /// (a synchronous writer must not be merged into a non-synchronous leader's group commit)
    #[serde(default)]
    pub sync_mask: u32,
}

#[derive(Clone, Debug, Default)]
pub struct ConcStats {
    pub nontrivial: bool,
    pub classes: Vec<&'static str>,
    pub holds: u64,
}

fn events() -> u64 {
    raindb::verif::counter(Counter::MemtableRotated)
        + raindb::verif::counter(Counter::VersionInstalled)
        + raindb::verif::counter(Counter::ObsoleteFileRemoved)
}

struct Rec {
    thread: usize,
    inv: u64,
    resp: u64,
    /// per key effect: (key index, kind)
    effects: Vec<(u8, KKind)>,
    ev0: u64,
    ev1: u64,
    is_get: bool,
}

fn val_id(v: &[u8]) -> Option<u64> {
    if v.len() >= 8 {
        Some(u64::from_be_bytes(v[..8].try_into().unwrap()))
    } else {
        None
    }
}

/// Run the programs concurrently and return the recorded history (or an error description).
fn execute(case: &ConcCase, check_lin: bool) -> Result<(Vec<Rec>, ConcStats), String> {
    crate::engine::set_level_limits(crate::engine::level_code_for(&case.cfg));
    let fs = Arc::new(MemFs::new(false));
    let ffs = Arc::new(crate::faultfs::FaultFs::new(fs.clone()));
    let fsd: Arc<dyn raindb::fs::FileSystem> = ffs.clone();
    if case.preload > 0 {
        let big = Cfg { memtable: 4 * 1024 * 1024, ..case.cfg };
        let db = DB::open(crate::engine::options_dyn(fsd.clone(), &big)).map_err(|e| format!("preload open failed: {e:?}"))?;
        for i in 0..case.preload as u64 {
            let k = KEYS[(i as usize) % KEYS.len()];
            let v = make_value(900_000_000 + i, Val { len: 300, compressible: false });
            db.put(WriteOptions::default(), k.to_vec(), v).map_err(|e| format!("preload put failed: {e:?}"))?;
        }
        drop(db);
    }
    let db = Arc::new(DB::open(crate::engine::options_dyn(fsd, &case.cfg)).map_err(|e| format!("open failed: {e:?}"))?);
    let faulty = case.wal_fault.is_some();
    if let Some(n) = case.wal_fault {
        *ffs.ctl.write_filter.lock().unwrap() = Some(("/wal/".to_string(), n.max(1) as i64, true));
    }
    let nk = (case.nkeys as usize).clamp(1, KEYS.len());
    let clock = Arc::new(AtomicU64::new(1));
    let recs: Arc<Mutex<Vec<Rec>>> = Arc::new(Mutex::new(vec![]));
    let errors: Arc<Mutex<Vec<String>>> = Arc::new(Mutex::new(vec![]));
    let n = case.programs.len();
    let st = SchedState::new(case.directives.clone(), n);
    let c0 = raindb::verif::counters();
    sched::install(st.clone());
    let barrier = Arc::new(Barrier::new(n));
    let mut handles = vec![];
    let sync_mask = case.sync_mask;
    for (ti, prog) in case.programs.iter().enumerate() {
        let (db, clock, recs, errors, st, barrier, prog) =
            (db.clone(), clock.clone(), recs.clone(), errors.clone(), st.clone(), barrier.clone(), prog.clone());
        handles.push(
            std::thread::Builder::new()
                .name(format!("client-{ti}"))
                .spawn(move || {
                    sched::set_role(ti as i32);
                    barrier.wait();
                    let mut sub = 0u64;
                    let sync_mask = sync_mask;
                    for (oi, op) in prog.iter().enumerate() {
                        let mut idgen = || {
                            sub += 1;
                            (ti as u64 + 1) * 1_000_000 + oi as u64 * 100 + sub
                        };
                        let wo = WriteOptions { synchronous: (sync_mask >> ((5 * ti + oi) % 32)) & 1 == 1 };
                        let ev0 = events();
                        let inv = clock.fetch_add(1, Ordering::SeqCst);
                        let mut effects: Vec<(u8, KKind)> = vec![];
                        let mut is_get = false;
                        match op {
                            COp::Put(k, len) => {
                                let k = *k % nk as u8;
                                let id = idgen();
                                let v = make_value(id, Val { len: 8 + *len as u32, compressible: false });
                                match db.put(wo, KEYS[k as usize].to_vec(), v) {
                                    Ok(()) => effects.push((k, KKind::Write { val: Some(id), maybe: false })),
                                    Err(_) if faulty => effects.push((k, KKind::Write { val: Some(id), maybe: true })),
                                    Err(e) => errors.lock().unwrap().push(format!("put returned {e:?} in a fault-free run")),
                                }
                            }
                            COp::PutBig(k, n) => {
                                let k = *k % nk as u8;
                                let id = idgen();
                                let v = make_value(id, Val { len: 40_000 + *n as u32 * 1000, compressible: false });
                                match db.put(wo, KEYS[k as usize].to_vec(), v) {
                                    Ok(()) => effects.push((k, KKind::Write { val: Some(id), maybe: false })),
                                    Err(_) if faulty => effects.push((k, KKind::Write { val: Some(id), maybe: true })),
                                    Err(e) => errors.lock().unwrap().push(format!("put returned {e:?} in a fault-free run")),
                                }
                            }
                            COp::Delete(k) => {
                                let k = *k % nk as u8;
                                match db.delete(wo, KEYS[k as usize].to_vec()) {
                                    Ok(()) => effects.push((k, KKind::Write { val: None, maybe: false })),
                                    Err(_) if faulty => effects.push((k, KKind::Write { val: None, maybe: true })),
                                    Err(e) => errors.lock().unwrap().push(format!("delete returned {e:?} in a fault-free run")),
                                }
                            }
                            COp::Batch(items) => {
                                let mut b = Batch::new();
                                let mut eff: BTreeMap<u8, Option<u64>> = BTreeMap::new();
                                for (k, v) in items {
                                    let k = *k % nk as u8;
                                    match v {
                                        Some(len) => {
                                            let id = idgen();
                                            b.add_put(KEYS[k as usize].to_vec(), make_value(id, Val { len: 8 + *len as u32, compressible: false }));
                                            eff.insert(k, Some(id));
                                        }
                                        None => {
                                            b.add_delete(KEYS[k as usize].to_vec());
                                            eff.insert(k, None);
                                        }
                                    }
                                }
                                match db.apply(wo, b) {
                                    Ok(()) => {
                                        for (k, v) in eff {
                                            effects.push((k, KKind::Write { val: v, maybe: false }));
                                        }
                                    }
                                    Err(_) if faulty => {
                                        for (k, v) in eff {
                                            effects.push((k, KKind::Write { val: v, maybe: true }));
                                        }
                                    }
                                    Err(e) => errors.lock().unwrap().push(format!("apply returned {e:?} in a fault-free run")),
                                }
                            }
                            COp::Get(k) => {
                                let k = *k % nk as u8;
                                is_get = true;
                                match db.get(ReadOptions::default(), KEYS[k as usize]) {
                                    Ok(v) => match val_id(&v) {
                                        Some(id) => effects.push((k, KKind::Read { val: Some(id) })),
                                        None => errors.lock().unwrap().push(format!("get({}) returned a {}-byte value nobody wrote", hex(KEYS[k as usize]), v.len())),
                                    },
                                    Err(RainDBError::KeyNotFound) => effects.push((k, KKind::Read { val: None })),
                                    Err(_) if faulty => {}
                                    Err(e) => errors.lock().unwrap().push(format!("get({}) returned {e:?} in a fault-free run", hex(KEYS[k as usize]))),
                                }
                            }
                            COp::Flush => db.compact_range(Some(RESERVED_LO)..Some(RESERVED_HI)),
                            COp::CompactAll => db.compact_range(None..None),
                            COp::Scan => match db.new_iterator(ReadOptions::default()) {
                                Ok(mut it) => {
                                    if let Err(e) = it.seek_to_first() {
                                        errors.lock().unwrap().push(format!("seek_to_first returned {e:?} in a fault-free run"));
                                    }
                                    let mut prev: Option<Vec<u8>> = None;
                                    while it.is_valid() {
                                        let k = it.current().unwrap().0.clone();
                                        if let Some(p) = &prev {
                                            if *p >= k {
                                                errors.lock().unwrap().push(format!("scan returned {} after {}", hex(&k), hex(p)));
                                            }
                                        }
                                        prev = Some(k);
                                        it.next();
                                    }
                                }
                                Err(e) => errors.lock().unwrap().push(format!("new_iterator returned {e:?} in a fault-free run")),
                            },
                        }
                        let resp = clock.fetch_add(1, Ordering::SeqCst);
                        let ev1 = events();
                        if check_lin {
                            recs.lock().unwrap().push(Rec { thread: ti, inv, resp, effects, ev0, ev1, is_get });
                        }
                    }
                    st.done[ti].store(true, Ordering::SeqCst);
                })
                .unwrap(),
        );
    }
    let mut panicked = vec![];
    for (i, h) in handles.into_iter().enumerate() {
        if h.join().is_err() {
            panicked.push(i);
            st.done[i].store(true, Ordering::SeqCst);
        }
    }
    sched::uninstall();
    if !panicked.is_empty() {
        return Err(format!("client thread(s) {panicked:?} panicked inside a database call"));
    }
    let mut stats = ConcStats::default();
    stats.holds = st.hold_count.load(Ordering::SeqCst);
    if check_lin {
        db.verif_wait_idle(Duration::from_secs(600));
        // final quiescent reads
        let mut r = recs.lock().unwrap();
        for k in 0..nk {
            let inv = clock.fetch_add(1, Ordering::SeqCst);
            let kind = match db.get(ReadOptions::default(), KEYS[k]) {
                Ok(v) => KKind::Read { val: val_id(&v) },
                Err(RainDBError::KeyNotFound) => KKind::Read { val: None },
                Err(_) if faulty => continue,
                Err(e) => return Err(format!("final get({}) returned {e:?}", hex(KEYS[k]))),
            };
            let resp = clock.fetch_add(1, Ordering::SeqCst);
            r.push(Rec { thread: 99, inv, resp, effects: vec![(k as u8, kind)], ev0: 0, ev1: 0, is_get: false });
        }
    }
    let errs = errors.lock().unwrap().clone();
    if let Some(e) = errs.first() {
        return Err(e.clone());
    }
    let c1 = raindb::verif::counters();
    let d = |c: Counter| c1[c as usize] - c0[c as usize];
    if d(Counter::GroupCommitMulti) > 0 {
        stats.classes.push("group_commit_of_several_writers");
        stats.nontrivial = true;
    }
    if d(Counter::MemtableRotated) > 0 {
        stats.classes.push("memtable_rotated");
    }
    if d(Counter::MemtableWait) > 0 {
        stats.classes.push("memtable_wait");
    }
    if d(Counter::L0Slowdown) > 0 {
        stats.classes.push("l0_slowdown");
    }
    if d(Counter::L0Stop) > 0 {
        stats.classes.push("l0_stop");
    }
    if d(Counter::TableCompaction) > 0 {
        stats.classes.push("table_compaction");
    }
    if stats.holds > 0 {
        stats.classes.push("directive_held_a_thread");
    }
    if faulty && ffs.ctl.fired.load(Ordering::SeqCst) {
        stats.classes.push("wal_append_failed_under_concurrent_writers");
        if d(Counter::GroupCommitMulti) > 0 {
            stats.classes.push("wal_fault_with_group_commit");
        }
        stats.nontrivial = true;
    }
    let recs = std::mem::take(&mut *recs.lock().unwrap());
    if recs.iter().any(|r| r.is_get && r.ev1 > r.ev0) {
        stats.classes.push("get_overlapped_rotation_install_or_gc");
        stats.nontrivial = true;
    }
    // the database is closed here (last Arc) while background work may still be pending
    drop(db);
    Ok((recs, stats))
}

pub fn run_c05(case: &ConcCase) -> Result<ConcStats, String> {
    let (recs, mut stats) = execute(case, true)?;
    let nk = (case.nkeys as usize).clamp(1, KEYS.len());
    for k in 0..nk as u8 {
        let ops: Vec<KOp> = recs
            .iter()
            .flat_map(|r| r.effects.iter().filter(|(ek, _)| *ek == k).map(move |(_, kind)| KOp { thread: r.thread, inv: r.inv, resp: r.resp, kind: kind.clone() }))
            .collect();
        if ops.len() > 63 {
            continue;
        }
        let verdict = crate::lin::linearizable_within(&ops, 3_000_000);
        if verdict.is_none() {
            // undecided within the state budget (many indeterminate writes): neither pass nor violation
            stats.classes.push("linearizability_search_budget_exceeded_for_a_key");
            continue;
        }
        if verdict == Some(false) {
            let w = simple_witness(&ops).unwrap_or_else(|| "no single-read witness; the complete search over all orders failed".into());
            let mut hist: Vec<String> = ops
                .iter()
                .map(|o| format!("t{}[{}..{}]{}", o.thread, o.inv, o.resp, match &o.kind {
                    KKind::Write { val: Some(v), .. } => format!("put#{v}"),
                    KKind::Write { val: None, .. } => "delete".into(),
                    KKind::Read { val: Some(v) } => format!("get=#{v}"),
                    KKind::Read { val: None } => "get=NotFound".into(),
                }))
                .collect();
            hist.truncate(40);
            return Err(format!("history of key {} is not linearizable: {w}; history: {}", hex(KEYS[k as usize]), hist.join(" ")));
        }
    }
    Ok(stats)
}

pub fn run_c09(case: &ConcCase) -> Result<ConcStats, String> {
    let (_, mut stats) = execute(case, false)?;
    stats.nontrivial = ["memtable_wait", "l0_slowdown", "l0_stop"].iter().any(|c| stats.classes.contains(c));
    Ok(stats)
}

fn cfg_small() -> impl Strategy<Value = Cfg> {
    (select(vec![512usize, 700, 1500]), select(vec![400u64, 1024, 6000]), select(vec![16usize, 128, 4096]), any::<bool>())
        .prop_map(|(memtable, file, block, reuse)| Cfg { memtable, file, block, reuse })
}

fn cop(max_len: u16) -> impl Strategy<Value = COp> {
    prop_oneof![
        30 => (0u8..6, 0u16..max_len).prop_map(|(k, l)| COp::Put(k, l)),
        4 => (0u8..6, 0u8..120).prop_map(|(k, n)| COp::PutBig(k, n)),
        8 => (0u8..6).prop_map(COp::Delete),
        6 => prop::collection::vec((0u8..6, prop::option::weighted(0.8, 0u16..max_len)), 1..5).prop_map(COp::Batch),
        30 => (0u8..6).prop_map(COp::Get),
        4 => Just(COp::Flush),
    ]
}

fn directive(nthreads: usize) -> impl Strategy<Value = Directive> {
    let client_points = vec!["get.unlocked", "get.before_version", "write.before_wal", "write.after_wal", "write.mid_memtable", "write.after_memtable"];
    let bg_points = vec!["flush.before_build", "manifest.before_append", "manifest.after_append", "compaction.step", "gc.before_delete", "gc.after_delete"];
    prop_oneof![
        3 => (0..nthreads as i32, select(client_points), 0u32..4, 20u32..150)
            .prop_map(|(role, p, nth, max_hold_ms)| Directive { role, point: p.to_string(), nth, max_hold_ms, linger_ms: 0, every: 0 }),
        1 => (select(bg_points), 0u32..3, 20u32..120)
            .prop_map(|(p, nth, max_hold_ms)| Directive { role: -1, point: p.to_string(), nth, max_hold_ms, linger_ms: 0, every: 0 }),
    ]
}

pub fn c05_strategy(forced: bool) -> BoxedStrategy<ConcCase> {
    (2usize..=4)
        .prop_flat_map(move |nt| {
            let max_ops = 56 / nt;
            (
                cfg_small(),
                2u8..=6,
                prop::collection::vec(prop::collection::vec(cop(160), 3..=max_ops.min(14)), nt),
                if forced { prop::collection::vec(directive(nt), 1..=4).boxed() } else { Just(vec![]).boxed() },
                prop_oneof![2 => Just(0u32), 1 => any::<u32>(), 1 => (any::<u32>(), any::<u32>()).prop_map(|(a, b)| a & b)],
            )
        })
        .prop_map(|(cfg, nkeys, programs, directives, sync_mask)| ConcCase { cfg, nkeys, programs, directives, wal_fault: None, preload: 0, sync_mask })
        .boxed()
}

/// Fault variant: forced schedules that hold writers around the WAL append (so that followers queue
/// up and group commits form) plus one sticky failure of the n-th WAL write.
pub fn c05_fault_strategy() -> BoxedStrategy<ConcCase> {
    (c05_strategy(true), 1u8..12, prop::collection::vec((0i32..4, 0u32..4, 20u32..80), 1..3))
        .prop_map(|(mut c, n, holds)| {
            c.wal_fault = Some(n);
            for (role, nth, ms) in holds {
                if (role as usize) < c.programs.len() {
                    c.directives.push(Directive { role, point: "write.before_wal".into(), nth, max_hold_ms: ms, linger_ms: 0, every: 0 });
                }
            }
            c
        })
        .boxed()
}

pub fn c09_strategy() -> BoxedStrategy<ConcCase> {
    let op = prop_oneof![
        50 => (0u8..6, 50u16..300).prop_map(|(k, l)| COp::Put(k, l)),
        5 => (0u8..6).prop_map(COp::Delete),
        6 => prop::collection::vec((0u8..6, prop::option::weighted(0.8, 50u16..300)), 1..6).prop_map(COp::Batch),
        8 => (0u8..6).prop_map(COp::Get),
        3 => Just(COp::Flush),
        2 => Just(COp::CompactAll),
        3 => Just(COp::Scan),
    ];
    (1usize..=4)
        .prop_flat_map(move |nt| {
            (
                (select(vec![512usize, 700]), Just(400u64), select(vec![16usize, 128, 4096]), any::<bool>())
                    .prop_map(|(memtable, file, block, reuse)| Cfg { memtable, file, block, reuse }),
                prop::collection::vec(prop::collection::vec(op.clone(), 20..70), nt),
                prop_oneof![1 => Just(0u32), 1 => any::<u32>()],
            )
        })
        .prop_map(|(cfg, programs, sync_mask)| ConcCase { cfg, nkeys: 6, programs, directives: vec![], wal_fault: None, preload: 0, sync_mask })
        .boxed()
}

/// Sustained load with the background thread held inside a table compaction (or between its
/// steps) so that memtable rotations and flushes happen while a compaction is in flight.
pub fn c09_forced_strategy() -> BoxedStrategy<ConcCase> {
    let bg = (
        select(vec!["compaction.step", "compaction.step", "manifest.before_append", "flush.before_build", "gc.before_delete"]),
        0u32..6,
        10u32..60,
    )
        .prop_map(|(p, nth, max_hold_ms)| Directive { role: -1, point: p.to_string(), nth, max_hold_ms, linger_ms: 0, every: 0 });
    let random = (c09_strategy(), prop::collection::vec(bg, 1..4)).prop_map(|(mut c, d)| {
        c.directives = d;
        c
    });
    // Structured: one client builds a layout out of small flushes over key groups (files that are
    // pushed down to levels 1 and 2 and leave gaps between them) and then compacts everything; a
    // second client, delayed at its first read, fills the memtable while the background thread is
    // held inside that compaction.
    let group = prop::collection::vec(0u8..6, 1..4);
    let writer = prop_oneof![
        8 => (0u8..6, 150u16..300).prop_map(|(k, l)| COp::Put(k, l)),
        1 => (0u8..6).prop_map(COp::Get),
        1 => Just(COp::Scan),
    ];
    let structured = (
        (select(vec![512usize, 700]), select(vec![400u64, 1024 * 1024]), select(vec![128usize, 4096]), any::<bool>())
            .prop_map(|(memtable, file, block, reuse)| Cfg { memtable, file, block, reuse }),
        prop::collection::vec(group, 2..7),
        prop::collection::vec(writer, 3..12),
        0u32..3,
        (5u32..30, 20u32..60),
    )
        .prop_map(|(cfg, groups, writer, nth, (delay, hold))| {
            let mut p0 = vec![];
            for g in groups {
                for k in g {
                    p0.push(COp::Put(k, 20));
                }
                p0.push(COp::Flush);
            }
            p0.push(COp::CompactAll);
            p0.push(COp::Scan);
            let mut p1 = vec![COp::Get(0)];
            p1.extend(writer);
            ConcCase {
                cfg,
                nkeys: 6,
                programs: vec![p0, p1],
                directives: vec![
                    Directive { role: 1, point: "get.unlocked".into(), nth: 0, max_hold_ms: delay, linger_ms: 0, every: 0 },
                    Directive { role: -1, point: "compaction.step".into(), nth, max_hold_ms: hold, linger_ms: 0, every: 0 },
                ],
                wal_fault: None,
                preload: 0,
                sync_mask: 0,
            }
        });
    // Gap layout: key order of KEYS is [2, 4, 0, 1, 3, 5]; the lowest `lo` and the highest `hi` keys
    // are flushed twice as two disjoint files each (the second pair lands one level above the
    // first), everything is compacted, and meanwhile a delayed second client fills the memtable
    // with the keys in the gap only.
    let gap = (
        (select(vec![512usize, 700]), select(vec![400u64, 1024 * 1024]), select(vec![128usize, 4096]), any::<bool>())
            .prop_map(|(memtable, file, block, reuse)| Cfg { memtable, file, block, reuse }),
        (1usize..3, 1usize..3, 1usize..3),
        prop::collection::vec(150u16..300, 3..8),
        0u32..3,
        (5u32..30, 20u32..60),
    )
        .prop_map(|(cfg, (lo, hi, rounds), lens, nth, (delay, hold))| {
            const ORDER: [u8; 6] = [2, 4, 0, 1, 3, 5];
            let mut p0 = vec![];
            for _ in 0..=rounds {
                for k in &ORDER[..lo] {
                    p0.push(COp::Put(*k, 20));
                }
                p0.push(COp::Flush);
                for k in &ORDER[6 - hi..] {
                    p0.push(COp::Put(*k, 20));
                }
                p0.push(COp::Flush);
            }
            p0.push(COp::CompactAll);
            p0.push(COp::Scan);
            let middle = &ORDER[lo..6 - hi];
            let mut p1 = vec![COp::Get(0)];
            for (i, l) in lens.into_iter().enumerate() {
                p1.push(COp::Put(middle[i % middle.len()], l));
            }
            ConcCase {
                cfg,
                nkeys: 6,
                programs: vec![p0, p1],
                directives: vec![
                    Directive { role: 1, point: "get.unlocked".into(), nth: 0, max_hold_ms: delay, linger_ms: 0, every: 0 },
                    Directive { role: -1, point: "compaction.step".into(), nth, max_hold_ms: hold, linger_ms: 0, every: 0 },
                ],
                wal_fault: None,
                preload: 0,
                sync_mask: 0,
            }
        });
    // Close race: the background thread is held after it drained its task buffer until the clients
    // are done, and lingers a little, so that it resumes while the database is being closed with a
    // task that was scheduled in the meantime still unprocessed.
    let closing = (c09_strategy(), 0u32..8, 10u32..50, 2u32..30).prop_map(|(mut c, nth, max_hold_ms, linger_ms)| {
        for p in c.programs.iter_mut() {
            p.truncate(25);
        }
        c.directives = vec![Directive { role: -1, point: "worker.tasks_drained".into(), nth, max_hold_ms, linger_ms, every: 0 }];
        c
    });
    // Level-0 pile: a preloaded WAL is replayed into a dozen or more level-0 files; the background
    // thread is held inside the first compaction while the clients write, so that writers meet
    // the level-0 stop trigger and have to be woken up correctly when the pile is gone.
    let pile = (c09_strategy(), 30u16..120, prop::collection::vec((0u32..12, 8u32..35), 1..4)).prop_map(|(mut c, preload, holds)| {
        c.preload = preload;
        c.cfg.memtable = 512;
        c.directives = holds
            .into_iter()
            .map(|(nth, max_hold_ms)| Directive { role: -1, point: "compaction.step".into(), nth, max_hold_ms, linger_ms: 0, every: 0 })
            .collect();
        c
    });
    // Close race, structured: one client rotates the memtable a few times without ever having to
    // wait (1500-byte memtable, 200-320 byte values) and closes; the background thread is held
    // after one of the flushes until the client is done and lingers into the close.
    let closing2 = (prop::collection::vec((0u8..6, 200u16..320), 6..14), 0u32..3, 2u32..40, any::<bool>()).prop_map(|(puts, nth, linger_ms, reuse)| ConcCase {
        cfg: Cfg { memtable: 1500, file: 1024 * 1024, block: 4096, reuse },
        nkeys: 6,
        programs: vec![puts.into_iter().map(|(k, l)| COp::Put(k, l)).collect()],
        directives: vec![Directive { role: -1, point: "worker.tasks_drained".into(), nth, max_hold_ms: 300, linger_ms, every: 0 }],
        wal_fault: None,
        preload: 0,
        sync_mask: 0,
    });
    prop_oneof![6 => random, 1 => structured, 1 => gap, 1 => closing, 1 => closing2, 2 => pile].boxed()
}

pub enum Outcome {
    Pass(ConcStats),
    Fail(String),
    Hung(String),
}

pub fn guarded<F: FnOnce() -> Result<ConcStats, String> + Send + 'static>(f: F) -> Outcome {
    let bg0 = crate::guard::bg_panics();
    let p0 = crate::guard::panic_count();
    let g = run_guarded("conc-case", f);
    sched::uninstall();
    match g {
        Guarded::Done(Ok(s)) => {
            if crate::guard::bg_panics() > bg0 {
                let ps = crate::guard::panics_since(p0);
                return Outcome::Fail(format!("a database thread panicked: {}", ps.iter().map(|p| format!("{} at {}: {}", p.thread, p.location, p.message)).collect::<Vec<_>>().join(" | ")));
            }
            Outcome::Pass(s)
        }
        Guarded::Done(Err(e)) => Outcome::Fail(e),
        Guarded::Panicked(m) => Outcome::Fail(format!("a call panicked: {m}")),
        Guarded::Hung(m) => Outcome::Hung(m),
    }
}

pub fn replay_body(id: &str, case: &ConcCase, msg: &str) -> Value {
    json!({"property": id, "engine": "conc", "case": case, "message": msg})
}

/// Generic proptest campaign over ConcCase.
pub fn campaign(
    ctx: &WorkerCtx,
    id: &'static str,
    strat: BoxedStrategy<ConcCase>,
    cases: u64,
    stream: u64,
    hang_is_violation: bool,
    res: &RefCell<WorkerResult>,
) {
    if !res.borrow().violations.is_empty() {
        return;
    }
    let failed = RefCell::new(false);
    let first: RefCell<Option<(ConcCase, String)>> = RefCell::new(None);
    let mut runner = TestRunner::new(Config {
        cases: ctx.share(cases).max(1) as u32,
        rng_seed: RngSeed::Fixed(ctx.derived_seed(stream)),
        failure_persistence: None,
        max_shrink_iters: if hang_is_violation { 80 } else { 400 },
        ..Config::default()
    });
    let outcome = runner.run(&strat, |case| {
        let c = case.clone();
        let out = guarded(move || if id == "C05" { run_c05(&c) } else { run_c09(&c) });
        let counting = !*failed.borrow();
        let mut r = res.borrow_mut();
        if counting {
            r.evaluations += 1;
        }
        match out {
            Outcome::Pass(st) => {
                if counting {
                    for c in &st.classes {
                        r.bump(c);
                    }
                    r.bump(if case.directives.is_empty() { "natural_schedule" } else { "forced_schedule" });
                    if st.nontrivial {
                        r.nontrivial_hashes.push(hash_json(&case));
                        if r.samples.len() < 2 {
                            r.samples.push(serde_json::to_value(&case).unwrap());
                        }
                    }
                }
                Ok(())
            }
            Outcome::Fail(e) => {
                if counting {
                    *first.borrow_mut() = Some((case.clone(), e.clone()));
                }
                *failed.borrow_mut() = true;
                Err(TestCaseError::fail(e))
            }
            Outcome::Hung(m) => {
                if hang_is_violation {
                    if counting {
                        *first.borrow_mut() = Some((case.clone(), format!("a call did not return: {m}")));
                    }
                    *failed.borrow_mut() = true;
                    crate::guard::QUIET_OVERRIDE.store(4, Ordering::Relaxed);
                    Err(TestCaseError::fail(format!("a call did not return: {m}")))
                } else {
                    if counting {
                        r.inconclusive.push(format!("a call did not return (C09's property): {m}"));
                    }
                    Ok(())
                }
            }
        }
    });
    crate::guard::QUIET_OVERRIDE.store(0, Ordering::Relaxed);
    if let Err(TestError::Fail(reason, case)) = outcome {
        let mut msg = reason.message().to_string();
        let mut case = case;
        // schedules are not fully deterministic: confirm the shrunk case, else keep the original
        let mut confirmed = false;
        for _ in 0..5 {
            let c = case.clone();
            match guarded(move || if id == "C05" { run_c05(&c) } else { run_c09(&c) }) {
                Outcome::Fail(e) => {
                    msg = e;
                    confirmed = true;
                    break;
                }
                Outcome::Hung(m) if hang_is_violation => {
                    msg = format!("a call did not return: {m}");
                    confirmed = true;
                    break;
                }
                _ => {}
            }
        }
        if !confirmed {
            if let Some((c, m)) = first.borrow().clone() {
                case = c;
                msg = m;
            }
        }
        let mut r = res.borrow_mut();
        let path = write_replay(id, ctx.seed, ctx.worker, stream as usize, &replay_body(id, &case, &msg));
        r.violations.push(ViolationRec { replay: path, message: msg });
    }
}

pub fn worker_c05(ctx: &WorkerCtx) -> WorkerResult {
    let mut r0 = WorkerResult::default();
    if let Err(e) = crate::lin::self_test() {
        r0.inconclusive.push(format!("linearizability checker self-test failed, nothing is reported: {e}"));
        return r0;
    }
    let (forced, natural) = match ctx.tier {
        Tier::Quick => (4000u64, 600u64),
        Tier::Thorough => (150_000, 20_000),
    };
    let scale = |n: u64| std::env::var("VERIF_CASES").ok().and_then(|s| s.parse::<u64>().ok()).map(|c| c * n / 4000).unwrap_or(n).max(1);
    let res = RefCell::new(r0);
    campaign(ctx, "C05", c05_strategy(true), scale(forced), 51, false, &res);
    campaign(ctx, "C05", c05_strategy(false), scale(natural), 52, false, &res);
    campaign(ctx, "C05", c05_fault_strategy(), scale(natural), 53, false, &res);
    res.into_inner()
}

/// C09 parts (ii) and (iii): sustained concurrent load and close with pending background work.
pub fn worker_c09_conc(ctx: &WorkerCtx, res: &RefCell<WorkerResult>) {
    let cases = match ctx.tier {
        Tier::Quick => 1600u64,
        Tier::Thorough => 30_000,
    };
    let cases = std::env::var("VERIF_CASES").ok().and_then(|s| s.parse::<u64>().ok()).map(|c| (c * cases / 8000).max(1)).unwrap_or(cases);
    campaign(ctx, "C09", c09_strategy(), cases, 91, true, res);
    // forced cases spend most of their time in holds: fewer of them
    campaign(ctx, "C09", c09_forced_strategy(), cases * 3, 92, true, res);
}

pub fn replay(v: &Value) -> Result<(), String> {
    let id = v["property"].as_str().unwrap_or("C05").to_string();
    let case: ConcCase = serde_json::from_value(v["case"].clone()).map_err(|e| e.to_string())?;
    // schedules vary: a genuine failure may be intermittent, so the case is repeated
    // schedule-dependent cases are repeated; a deterministic hand-written case may ask for fewer repeats
    let repeats = v["repeats"].as_u64().unwrap_or(20);
    for _ in 0..repeats {
        let c = case.clone();
        let idc = id.clone();
        match guarded(move || if idc == "C05" { run_c05(&c) } else { run_c09(&c) }) {
            Outcome::Pass(_) => {}
            Outcome::Fail(e) => return Err(e),
            Outcome::Hung(m) => {
                if id == "C09" {
                    return Err(format!("a call did not return: {m}"));
                }
            }
        }
    }
    Ok(())
}
