//! C15: single-byte corruptions and truncations of persistent files are detected, never served.

use crate::case::*;
use crate::engine::{options, Model};
use crate::gen::{case_strategy, GenParams};
use crate::guard::{run_guarded, Guarded};
use crate::memfs::{JOp, MemFs};
use crate::runner::*;
use proptest::test_runner::{Config, RngSeed, TestError, TestRunner};
use raindb::verif::Counter;
use raindb::{Batch, RainDBError, RainDbIterator, ReadOptions, WriteOptions, DB};
use serde::{Deserialize, Serialize};
use serde_json::{json, Value};
use std::cell::RefCell;
use std::collections::{BTreeMap, BTreeSet};
use std::sync::Arc;
use std::time::Duration;

type Items = Vec<(Vec<u8>, Option<Vec<u8>>)>;

/// A database image plus everything the oracle needs to judge reads from a damaged copy.
#[derive(Clone, Debug, Serialize, Deserialize)]
pub struct Image {
    pub cfg: Cfg,
    /// path -> contents (hex)
    pub files: BTreeMap<String, HexBytes>,
    pub universe: Vec<HexBytes>,
    /// final contents
    pub model: Vec<(HexBytes, HexBytes)>,
    /// every value ever written per key
    pub ever: Vec<(HexBytes, Vec<HexBytes>)>,
    /// path of the live write-ahead log
    pub wal_path: String,
    /// contents when the live WAL was created
    pub wal_base: Vec<(HexBytes, HexBytes)>,
    /// batches in the live WAL in order: (end offset in the WAL file, items)
    pub wal_batches: Vec<(usize, Vec<(HexBytes, Option<HexBytes>)>)>,
}

#[derive(Clone, Debug, PartialEq, Eq, PartialOrd, Ord, Hash)]
pub struct HexBytes(pub Vec<u8>);
impl Serialize for HexBytes {
    fn serialize<S: serde::Serializer>(&self, s: S) -> Result<S::Ok, S::Error> {
        crate::case::hexbytes::serialize(&self.0, s)
    }
}
impl<'de> Deserialize<'de> for HexBytes {
    fn deserialize<D: serde::Deserializer<'de>>(d: D) -> Result<Self, D::Error> {
        crate::case::hexbytes::deserialize(d).map(HexBytes)
    }
}

#[derive(Clone, Debug, Serialize, Deserialize, PartialEq, Eq)]
pub enum Mutation {
    /// replace the byte at offset by value
    Byte { offset: usize, value: u8 },
    /// cut the file to this length
    Truncate { len: usize },
}

#[derive(Clone, Debug, Serialize, Deserialize)]
pub struct CorruptPoint {
    pub image: Image,
    pub file: String,
    pub mutation: Mutation,
}

pub fn image_params() -> GenParams {
    let mut p = GenParams::base();
    p.w.get = 0;
    p.w.getall = 0;
    p.w.hammer = 0;
    p.w.descriptor = 0;
    p.w.reopen = 1;
    p.w.flush = 8;
    p.w.compact = 3;
    p.w.fill = 8;
    p.big_value_permille = 3;
    p.max_ops = 50;
    p.max_chunks = 4;
    p.min_universe = 10;
    p.max_universe = 24;
    p
}

/// Build an image by running the (write-only part of the) case plus a fixed tail that guarantees
/// tables on two levels, a manifest with several records and a non-empty WAL.
pub fn build_image(case: &Case) -> Result<Image, String> {
    crate::engine::set_level_limits(0);
    let fs = Arc::new(MemFs::new(true));
    let mut cfg = case.cfg;
    if cfg.block > 256 {
        cfg.block = 128;
    }
    if cfg.memtable < 1500 {
        cfg.memtable = 1500;
    }
    let mut db = Some(DB::open(options(&fs, &cfg)).map_err(|e| format!("open: {e:?}"))?);
    let mut model = Model::new();
    let mut ever: BTreeMap<Vec<u8>, BTreeSet<Vec<u8>>> = BTreeMap::new();
    // (journal index at entry, journal index at return, items, model before)
    let mut batches: Vec<(usize, usize, Items, Model)> = vec![];
    let mut counter = 0u64;
    let u = &case.universe;
    let key = |s: Sel| u[pick(s, u.len())].clone();
    let mut ops: Vec<Op> = case.ops.clone();
    let v = |len: u32, c: bool| Val { len, compressible: c };
    ops.extend([
        Op::Fill { start: 0, n: 8, val: v(40, false) },
        Op::Flush,
        Op::Fill { start: 20000, n: 8, val: v(60, true) },
        Op::Flush,
        Op::Fill { start: 40000, n: 6, val: v(30, false) },
        Op::Delete(3000),
        Op::Flush,
        // queue-like shape: the lowest keys are written and deleted again, live keys follow in the
        // same table, so that a compaction starts with a long run of entries it drops entirely
        Op::Fill { start: 0, n: 10, val: v(50, false) },
        Op::Batch((0..10usize.min(u.len())).map(|i| ((((i as u32) * 65536 + u.len() as u32 - 1) / u.len() as u32) as u16, None)).collect()),
        Op::Fill { start: ((12usize.min(u.len() - 1) as u32 * 65536 + u.len() as u32 - 1) / u.len() as u32) as u16, n: 6, val: v(40, false) },
        Op::Flush,
        // the same at the upper end: the highest keys written and deleted again, so that merges end
        // with a run of entries that is dropped entirely (no output file is open any more when a
        // damaged block of that run is read)
        Op::Fill { start: ((u.len().saturating_sub(8) as u32 * 65536 + u.len() as u32 - 1) / u.len() as u32) as u16, n: 8usize.min(u.len()) as u8, val: v(50, false) },
        Op::Batch((u.len().saturating_sub(8)..u.len()).map(|i| ((((i as u32) * 65536 + u.len() as u32 - 1) / u.len() as u32) as u16, None)).collect()),
        Op::Flush,
        Op::WaitIdle,
        Op::Put(1000, v(20, false)),
        Op::Put(30000, v(25, true)),
        Op::Delete(50000),
        Op::Batch(vec![(9000, Some(v(18, false))), (60000, Some(v(33, false))), (25000, None)]),
        Op::Put(45000, v(12, false)),
    ]);
    // a quarter of the images end with a record of several log fragments in the live WAL (a value
    // larger than a 32 KiB log block, written to a key that already has a small value in the same WAL)
    let ch = hash_json(case);
    if ch % 8 == 0 {
        ops.push(Op::Put(1000, v(33_000 + (ch >> 8) as u32 % 40_000, false)));
    }
    if ch % 8 == 4 {
        // one record of three or more fragments: a batch of two 40 kB values made of one repeated byte
        // (bytes of a later fragment spliced in after an earlier one still decode as a value)
        ops.push(Op::Batch(vec![(1000, Some(v(40_000, true))), (9000, Some(v(40_000 + (ch >> 8) as u32 % 3000, true)))]));
    }
    let crafted_batch = ch % 8 == 4;
    // an eighth of the images: one table whose single data block is far larger than 64 KiB and
    // compresses well (a compressed block of several compression chunks)
    let big_block = ch % 8 == 2;
    if big_block {
        ops.push(Op::Reopen(Cfg { memtable: 4 * 1024 * 1024, file: 1024 * 1024, block: 1 << 20, reuse: false }));
        ops.push(Op::Fill { start: 0, n: 10, val: v(16_384, true) });
        ops.push(Op::Flush);
        ops.push(Op::WaitIdle);
        ops.push(Op::Put(1000, v(22, false)));
    }
    // another quarter: a fresh WAL under a large memtable whose first 32 KiB block ends in a 1-6 byte
    // trailer, with further records (overwrites of keys stored in tables) in the second block
    if ch % 4 == 1 {
        ops.push(Op::Reopen(Cfg { memtable: 100_000, file: cfg.file, block: 128, reuse: false }));
        ops.push(Op::Put(9000, v(30, false)));
        ops.push(Op::Delete(30000));
        ops.push(Op::PutTail(1000, 1 + ((ch >> 8) % 6) as u8));
        ops.push(Op::Put(9000, v(21, false)));
        ops.push(Op::Batch(vec![(60000, Some(v(35, false))), (45000, None)]));
        ops.push(Op::Put(1000, v(26, false)));
    }
    let mut write = |db: &DB, fs: &MemFs, model: &mut Model, items: Items| -> Result<(), String> {
        let mut b = Batch::new();
        for (k, v) in &items {
            match v {
                Some(v) => {
                    b.add_put(k.clone(), v.clone());
                }
                None => {
                    b.add_delete(k.clone());
                }
            }
        }
        let before = model.clone();
        let e = fs.journal_len();
        db.apply(WriteOptions::default(), b).map_err(|e| format!("write: {e:?}"))?;
        let r = fs.journal_len();
        for (k, v) in &items {
            match v {
                Some(v) => {
                    ever.entry(k.clone()).or_default().insert(v.clone());
                    model.insert(k.clone(), v.clone());
                }
                None => {
                    model.remove(k);
                }
            }
        }
        batches.push((e, r, items, before));
        Ok(())
    };
    for op in &ops {
        let d = db.as_ref().unwrap();
        match op {
            Op::Put(s, val) => {
                counter += 1;
                write(d, &fs, &mut model, vec![(key(*s), Some(make_value(counter, *val)))])?;
            }
            Op::Delete(s) => write(d, &fs, &mut model, vec![(key(*s), None)])?,
            Op::PutTail(s, r) => {
                let k = key(*s);
                let path = format!("db/wal/wal-{}.log", d.verif_state().db_wal_number);
                let size = fs.read_file(&path).map_or(0, |f| f.len() as u64);
                let len = tail_value_len(size, k.len(), *r).unwrap_or(40);
                counter += 1;
                write(d, &fs, &mut model, vec![(k, Some(make_value(counter, Val { len, compressible: false })))])?;
            }
            Op::Batch(items) => {
                let mut staged = vec![];
                for (s, val) in items {
                    match val {
                        Some(val) if crafted_batch && val.len >= 40_000 => {
                            // values made of one repeated byte that also reads as a batch element
                            // (operation tag 1, length prefixes 1): whatever position a damaged log
                            // reader resumes at inside them, the bytes decode as operations
                            counter += 1;
                            let fill = if staged.is_empty() { 7u8 } else { 1u8 };
                            staged.push((key(*s), Some(vec![fill; val.len as usize])));
                        }
                        Some(val) => {
                            counter += 1;
                            staged.push((key(*s), Some(make_value(counter, *val))));
                        }
                        None => staged.push((key(*s), None)),
                    }
                }
                write(d, &fs, &mut model, staged)?;
            }
            Op::Fill { start, n, val } => {
                let b0 = pick(*start, u.len());
                for i in 0..(*n as usize) {
                    counter += 1;
                    write(d, &fs, &mut model, vec![(u[(b0 + i) % u.len()].clone(), Some(make_value(counter, *val)))])?;
                }
            }
            Op::Flush => d.compact_range(Some(RESERVED_LO)..Some(RESERVED_HI)),
            Op::Compact(lo, hi) => {
                let mut lo = lo.map(key);
                let mut hi = hi.map(key);
                if let (Some(a), Some(b)) = (&lo, &hi) {
                    if a > b {
                        std::mem::swap(&mut lo, &mut hi);
                    }
                }
                d.compact_range(lo.as_deref()..hi.as_deref());
            }
            Op::WaitIdle => {
                d.verif_wait_idle(Duration::from_secs(600));
            }
            Op::Reopen(c) => {
                db = None;
                let mut c = *c;
                if c.block > 256 && !(big_block && c.block == 1 << 20) {
                    c.block = 128;
                }
                if c.memtable < 1500 {
                    c.memtable = 1500;
                }
                cfg = c;
                db = Some(DB::open(options(&fs, &cfg)).map_err(|e| format!("reopen: {e:?}"))?);
            }
            _ => {}
        }
    }
    let d = db.as_ref().unwrap();
    d.verif_wait_idle(Duration::from_secs(600));
    let st = d.verif_state();
    let wal_path = format!("db/wal/wal-{}.log", st.db_wal_number);
    drop(db);
    // which batches live in the final WAL, and where
    let journal = fs.journal();
    let wal_id = journal.iter().rev().find_map(|op| match op {
        JOp::Create { path, id } if *path == wal_path => Some(*id),
        _ => None,
    });
    let mut wal_batches = vec![];
    let mut wal_base: Option<Model> = None;
    if let Some(wid) = wal_id {
        let mut off = 0usize;
        let mut ends: Vec<usize> = vec![0; journal.len() + 1];
        for (i, op) in journal.iter().enumerate() {
            if let JOp::Append { id, data } = op {
                if *id == wid {
                    off += data.len();
                }
            }
            ends[i + 1] = off;
        }
        let created_at = journal.iter().position(|op| matches!(op, JOp::Create { id, .. } if *id == wid)).unwrap_or(0);
        for (e, r, items, before) in &batches {
            if *e >= created_at && ends[*r] > ends[*e] {
                if wal_base.is_none() {
                    wal_base = Some(before.clone());
                }
                wal_batches.push((
                    ends[*r],
                    items.iter().map(|(k, v)| (HexBytes(k.clone()), v.clone().map(HexBytes))).collect(),
                ));
            }
        }
    }
    let hp = |m: &Model| m.iter().map(|(k, v)| (HexBytes(k.clone()), HexBytes(v.clone()))).collect::<Vec<_>>();
    let mut files = BTreeMap::new();
    for p in fs.file_names() {
        files.insert(p.clone(), HexBytes(fs.read_file(&p).unwrap()));
    }
    Ok(Image {
        cfg,
        files,
        universe: u.iter().map(|k| HexBytes(k.clone())).collect(),
        model: hp(&model),
        ever: ever
            .into_iter()
            .map(|(k, vs)| (HexBytes(k), vs.into_iter().map(HexBytes).collect()))
            .collect(),
        wal_path,
        wal_base: hp(&wal_base.unwrap_or_else(|| model.clone())),
        wal_batches,
    })
}

#[derive(Debug, Clone, Default)]
pub struct EvalInfo {
    pub open_failed: bool,
    pub read_errors: u64,
    pub touched: bool,
    pub swallowed: u64,
    pub wal_skipped_state: bool,
    pub compacted: bool,
}

#[derive(Debug, Clone)]
pub struct CorruptViolation {
    pub what: String,
    pub swallowed: u64,
    /// the damaged byte is a length or type byte of a log fragment header of the manifest
    pub manifest_header: bool,
    /// an invented value is never covered by the two findings above
    pub invented: bool,
    /// the damaged byte is the type byte of a fragment header of the write-ahead log
    pub wal_type_byte: bool,
}

fn mutate(fs: &MemFs, file: &str, m: &Mutation) -> bool {
    let Some(mut data) = fs.read_file(file) else { return false };
    match m {
        Mutation::Byte { offset, value } => {
            if *offset >= data.len() || data[*offset] == *value {
                return false;
            }
            data[*offset] = *value;
        }
        Mutation::Truncate { len } => {
            if *len >= data.len() {
                return false;
            }
            data.truncate(*len);
        }
    }
    fs.write_file_raw(file, data);
    true
}

pub fn eval_point(p: &CorruptPoint) -> Result<EvalInfo, CorruptViolation> {
    let c0 = raindb::verif::counter(Counter::IterErrorSwallowed);
    let r = eval_inner(p);
    let swallowed = raindb::verif::counter(Counter::IterErrorSwallowed) - c0;
    match r {
        Ok(mut i) => {
            i.swallowed = swallowed;
            Ok(i)
        }
        Err((what, invented)) => {
            let manifest_header = is_manifest_header_byte(p);
            Err(CorruptViolation {
                what: format!(
                    "{what} [iterator steps that swallowed a read error: {swallowed}; damaged byte is an unchecksummed manifest fragment header byte: {manifest_header}]"
                ),
                swallowed,
                invented,
                manifest_header,
                wal_type_byte: is_wal_type_byte(p),
            })
        }
    }
}

fn eval_inner(p: &CorruptPoint) -> Result<EvalInfo, (String, bool)> {
    crate::engine::set_level_limits(0);
    let img = &p.image;
    let fs = Arc::new(MemFs::new(false));
    for (path, data) in &img.files {
        fs.write_file_raw(path, data.0.clone());
    }
    if !mutate(&fs, &p.file, &p.mutation) {
        return Ok(EvalInfo::default());
    }
    fs.set_track_reads(true);
    let mut info = EvalInfo::default();
    let model: Model = img.model.iter().map(|(k, v)| (k.0.clone(), v.0.clone())).collect();
    let ever: BTreeMap<Vec<u8>, BTreeSet<Vec<u8>>> =
        img.ever.iter().map(|(k, vs)| (k.0.clone(), vs.iter().map(|v| v.0.clone()).collect())).collect();
    let is_wal = p.file == img.wal_path;
    // per-key allowed values
    let mut allowed: BTreeMap<Vec<u8>, Vec<Option<Vec<u8>>>> = BTreeMap::new();
    let damage_at = match &p.mutation {
        Mutation::Byte { offset, .. } => *offset,
        Mutation::Truncate { len } => *len,
    };
    // WAL damage that leaves every fragment length and type intact (a payload byte or one of the four
    // checksum bytes): the reader knows where the next fragment starts, so exactly the record that
    // contains the damaged fragment may be skipped and every other record must be applied. Damage to
    // a length or type byte (or a truncation) can cost the alignment: there any later record may go.
    let mut strict_wal = false;
    let mut damaged_batch: Option<usize> = None;
    if is_wal {
        if let (Mutation::Byte { offset, .. }, Some(data)) = (&p.mutation, img.files.get(&p.file)) {
            let frags = log_fragments(&data.0);
            let in_header_len_or_type = frags.iter().any(|(o, _, _)| *offset >= o + 4 && *offset <= o + 6);
            let inside_some_fragment = frags.iter().any(|(o, l, _)| *offset >= *o && *offset < o + 7 + l);
            if !in_header_len_or_type {
                strict_wal = true;
                if inside_some_fragment {
                    damaged_batch = img.wal_batches.iter().position(|(end, _)| *end > *offset);
                }
            }
        }
    }
    if is_wal {
        let base: Model = img.wal_base.iter().map(|(k, v)| (k.0.clone(), v.0.clone())).collect();
        for k in img.universe.iter() {
            let mut set: Vec<Option<Vec<u8>>> = vec![base.get(&k.0).cloned()];
            for (bi, (end, items)) in img.wal_batches.iter().enumerate() {
                let mandatory = *end <= damage_at || (strict_wal && Some(bi) != damaged_batch);
                let mut eff: Option<Option<Vec<u8>>> = None;
                for (ik, iv) in items {
                    if ik == k {
                        eff = Some(iv.clone().map(|v| v.0));
                    }
                }
                if let Some(v) = eff {
                    if mandatory {
                        set = vec![v];
                    } else if !set.contains(&v) {
                        set.push(v);
                    }
                }
            }
            allowed.insert(k.0.clone(), set);
        }
    } else {
        for k in img.universe.iter() {
            allowed.insert(k.0.clone(), vec![model.get(&k.0).cloned()]);
        }
    }
    // Half of the table points re-open with a tiny output file size: every kept entry then closes
    // its compaction output at once, so a read error in the middle of a compaction arrives while
    // no output file is open (configuration changes between opens are legitimate).
    let mut open_cfg = img.cfg;
    if p.file.ends_with(".rdb") && mix(damage_at as u64, 77) % 2 == 0 {
        open_cfg.file = 150;
    }
    let db = match DB::open(options(&fs, &open_cfg)) {
        Ok(db) => db,
        Err(_) => {
            info.open_failed = true;
            info.touched = touched(&fs, &p.file, damage_at);
            return Ok(info);
        }
    };
    db.verif_wait_idle(Duration::from_secs(600));
    let mut observed: BTreeMap<Vec<u8>, Option<Vec<u8>>> = BTreeMap::new();
    for k in img.universe.iter() {
        let k = &k.0;
        let a = &allowed[k];
        match db.get(ReadOptions::default(), k) {
            Ok(v) => {
                observed.insert(k.clone(), Some(v.clone()));
                if !a.contains(&Some(v.clone())) {
                    let never = !ever.get(k).map_or(false, |s| s.contains(&v));
                    return Err((
                        format!(
                            "get({}) returned {} which {}; expected {} or an error",
                            hex(k),
                            hex(&v),
                            if never { "was never written for that key" } else { "is an older value of that key (resurrected)" },
                            a[0].as_ref().map(|v| hex(v)).unwrap_or_else(|| "KeyNotFound".into())
                        ),
                        never,
                    ));
                }
            }
            Err(RainDBError::KeyNotFound) => {
                observed.insert(k.clone(), None);
                if !a.contains(&None) {
                    return Err((
                        format!("get({}) returned KeyNotFound without any error although {} is stored", hex(k), a[0].as_ref().map(|v| hex(v)).unwrap_or_default()),
                        false,
                    ));
                }
            }
            Err(_) => {
                info.read_errors += 1;
            }
        }
    }
    // scan
    match db.new_iterator(ReadOptions::default()) {
        Err(_) => info.read_errors += 1,
        Ok(mut it) => {
            if it.seek_to_first().is_err() {
                info.read_errors += 1;
            } else {
                let mut prev: Option<Vec<u8>> = None;
                let mut seen = BTreeSet::new();
                while it.is_valid() {
                    let (k, v) = it.current().unwrap();
                    if let Some(pk) = &prev {
                        if pk >= k {
                            return Err((format!("scan returned {} after {} (reordered entries)", hex(k), hex(pk)), false));
                        }
                    }
                    let a = allowed.get(k).cloned().unwrap_or_else(|| vec![None]);
                    if !a.contains(&Some(v.clone())) {
                        let never = !ever.get(k).map_or(false, |s| s.contains(v));
                        return Err((
                            format!(
                                "scan returned ({}, {}) which {}",
                                hex(k),
                                hex(v),
                                if never { "was never written for that key (invented)" } else { "is an older value of that key (resurrected)" }
                            ),
                            never,
                        ));
                    }
                    seen.insert(k.clone());
                    prev = Some(k.clone());
                    it.next();
                }
                let stopped_with_error = it.take_error().is_some();
                if stopped_with_error {
                    info.read_errors += 1;
                }
                for (k, a) in &allowed {
                    if stopped_with_error {
                        break;
                    }
                    if !a.contains(&None) && !seen.contains(k) {
                        return Err((format!("scan ended without an error but {} is missing", hex(k)), false));
                    }
                }
            }
        }
    }
    // Backward scan, then a turn-around at every key (seek, prev, next): a merged scan that changes
    // direction re-positions its non-current children, which may step into the damaged block.
    if let Ok(mut it) = db.new_iterator(ReadOptions::default()) {
        let check_pair = |k: &Vec<u8>, v: &Vec<u8>, what: &str| -> Result<(), (String, bool)> {
            let a = allowed.get(k).cloned().unwrap_or_else(|| vec![None]);
            if !a.contains(&Some(v.clone())) {
                let never = !ever.get(k).map_or(false, |s| s.contains(v));
                return Err((
                    format!(
                        "{what} returned ({}, {}) which {}",
                        hex(k),
                        hex(v),
                        if never { "was never written for that key (invented)" } else { "is an older value of that key (resurrected)" }
                    ),
                    never,
                ));
            }
            Ok(())
        };
        if it.seek_to_last().is_err() {
            info.read_errors += 1;
        } else {
            let mut next_key: Option<Vec<u8>> = None;
            let mut seen = BTreeSet::new();
            while it.is_valid() {
                let (k, v) = it.current().map(|(k, v)| (k.clone(), v.clone())).unwrap();
                if let Some(nk) = &next_key {
                    if *nk <= k {
                        return Err((format!("backward scan returned {} after {} (reordered entries)", hex(&k), hex(nk)), false));
                    }
                }
                check_pair(&k, &v, "backward scan")?;
                seen.insert(k.clone());
                next_key = Some(k);
                it.prev();
            }
            if it.take_error().is_some() {
                info.read_errors += 1;
            } else {
                for (k, a) in &allowed {
                    if !a.contains(&None) && !seen.contains(k) {
                        return Err((format!("backward scan ended without an error but {} is missing", hex(k)), false));
                    }
                }
            }
        }
        let present: Vec<&Vec<u8>> = allowed.iter().filter(|(_, a)| !a.contains(&None)).map(|(k, _)| k).collect();
        for target in img.universe.iter().map(|k| &k.0) {
            if it.seek(target).is_err() || it.take_error().is_some() {
                info.read_errors += 1;
                continue;
            }
            if !it.is_valid() {
                continue;
            }
            let at = it.current().map(|(k, _)| k.clone()).unwrap();
            it.prev();
            if it.take_error().is_some() {
                info.read_errors += 1;
                continue;
            }
            // standing on the largest key smaller than `at` (or before the first one)
            let cur = if it.is_valid() { it.current().map(|(k, v)| (k.clone(), v.clone())) } else { None };
            if let Some(sk) = present.iter().find(|k| ***k < at && cur.as_ref().map_or(true, |(ck, _)| ***k > *ck)) {
                return Err((
                    format!(
                        "seek({}) then prev() stands on {} without any error although {} is stored (skipped)",
                        hex(target),
                        cur.as_ref().map(|(k, _)| hex(k)).unwrap_or_else(|| "<before the first entry>".into()),
                        hex(sk)
                    ),
                    false,
                ));
            }
            if let Some((ck, cv)) = &cur {
                if *ck >= at {
                    return Err((format!("seek({}) then prev() stands on {} which is not before {}", hex(target), hex(ck), hex(&at)), false));
                }
                check_pair(ck, cv, "seek then prev()")?;
                it.next();
                if it.take_error().is_some() {
                    info.read_errors += 1;
                    continue;
                }
                if it.is_valid() {
                    let (nk, nv) = it.current().map(|(k, v)| (k.clone(), v.clone())).unwrap();
                    if nk <= *ck {
                        return Err((format!("prev() then next() went from {} to {}", hex(ck), hex(&nk)), false));
                    }
                    check_pair(&nk, &nv, "prev() then next()")?;
                    if let Some(sk) = present.iter().find(|k| ***k > *ck && ***k < nk) {
                        return Err((format!("prev() then next() went from {} to {} without any error although {} is stored (skipped)", hex(ck), hex(&nk), hex(sk)), false));
                    }
                } else if let Some(sk) = present.iter().find(|k| ***k > *ck) {
                    return Err((format!("prev() then next() ran off the end after {} without any error although {} is stored", hex(ck), hex(sk)), false));
                }
            }
        }
    } else {
        info.read_errors += 1;
    }
    // One iterator re-used for a seek to every key; a seek that fails is retried once on the same
    // iterator (an iterator that reported an error must not serve anything wrong afterwards).
    if let Ok(mut it) = db.new_iterator(ReadOptions::default()) {
        let present: Vec<&Vec<u8>> = allowed.iter().filter(|(_, a)| !a.contains(&None)).map(|(k, _)| k).collect();
        for target in img.universe.iter().map(|k| &k.0) {
            let mut ok = it.seek(target).is_ok();
            if !ok {
                info.read_errors += 1;
                ok = it.seek(target).is_ok();
                if !ok {
                    info.read_errors += 1;
                    continue;
                }
            }
            if it.take_error().is_some() {
                info.read_errors += 1;
                continue;
            }
            let cur = if it.is_valid() { it.current().map(|(k, v)| (k.clone(), v.clone())) } else { None };
            if let Some(sk) = present.iter().find(|k| **k >= target && cur.as_ref().map_or(true, |(ck, _)| **k < ck)) {
                return Err((
                    format!(
                        "seek({}) on a re-used iterator returned Ok and stands on {} without any error although {} is stored (skipped)",
                        hex(target),
                        cur.as_ref().map(|(k, _)| hex(k)).unwrap_or_else(|| "<end>".into()),
                        hex(sk)
                    ),
                    false,
                ));
            }
            if let Some((ck, cv)) = cur {
                if &ck < target {
                    return Err((format!("seek({}) on a re-used iterator stands on the smaller key {}", hex(target), hex(&ck)), false));
                }
                let a = allowed.get(&ck).cloned().unwrap_or_else(|| vec![None]);
                if !a.contains(&Some(cv.clone())) {
                    let never = !ever.get(&ck).map_or(false, |s| s.contains(&cv));
                    return Err((
                        format!(
                            "seek({}) on a re-used iterator returned ({}, {}) which {}",
                            hex(target),
                            hex(&ck),
                            hex(&cv),
                            if never { "was never written for that key (invented)" } else { "is an older value of that key (resurrected)" }
                        ),
                        never,
                    ));
                }
            }
        }
    } else {
        info.read_errors += 1;
    }
    // A compaction over the damaged table must not turn the damage into silently missing or
    // resurrected data: it either fails (the files stay) or rewrites what it could verify.
    if p.file.ends_with(".rdb") {
        db.compact_range(None..None);
        db.verif_wait_idle(Duration::from_secs(600));
        info.compacted = true;
        for k in img.universe.iter() {
            let k = &k.0;
            let a = &allowed[k];
            match db.get(ReadOptions::default(), k) {
                Ok(v) => {
                    if !a.contains(&Some(v.clone())) {
                        let never = !ever.get(k).map_or(false, |s| s.contains(&v));
                        return Err((
                            format!(
                                "after compact_range over the damaged table get({}) returned {} which {}",
                                hex(k),
                                hex(&v),
                                if never { "was never written for that key" } else { "is an older value of that key (resurrected)" }
                            ),
                            never,
                        ));
                    }
                }
                Err(RainDBError::KeyNotFound) => {
                    if !a.contains(&None) {
                        return Err((
                            format!(
                                "after compact_range over the damaged table get({}) returned KeyNotFound without any error although {} is stored (the compaction dropped it silently)",
                                hex(k),
                                a[0].as_ref().map(|v| hex(v)).unwrap_or_default()
                            ),
                            false,
                        ));
                    }
                }
                Err(_) => {
                    info.read_errors += 1;
                }
            }
        }
    }
    // WAL: each batch is applied atomically
    if is_wal {
        for (bi, (end, items)) in img.wal_batches.iter().enumerate() {
            if *end <= damage_at || items.len() < 2 {
                continue;
            }
            let mut shows_this = false;
            let mut shows_earlier = false;
            for (k, v) in items {
                let Some(obs) = observed.get(&k.0) else { continue };
                let eff = v.clone().map(|v| v.0);
                let later: Vec<Option<Vec<u8>>> = img.wal_batches[bi + 1..]
                    .iter()
                    .flat_map(|(_, its)| its.iter().filter(|(ik, _)| ik == k).map(|(_, iv)| iv.clone().map(|v| v.0)))
                    .collect();
                if *obs == eff && eff.as_ref().map_or(false, |v| v.len() >= 8) {
                    shows_this = true;
                } else if *obs != eff && !later.contains(obs) {
                    shows_earlier = true;
                }
            }
            if shows_this && shows_earlier {
                return Err((format!("WAL batch #{bi} was applied partially after log damage (batches must stay atomic)"), false));
            }
        }
        let m: Model = observed.iter().filter_map(|(k, v)| v.clone().map(|v| (k.clone(), v))).collect();
        info.wal_skipped_state = m != model;
    }
    info.touched = touched(&fs, &p.file, damage_at);
    drop(db);
    Ok(info)
}

/// Fragments of a log file as (offset of the 7-byte header, payload length, type byte).
pub fn log_fragments(data: &[u8]) -> Vec<(usize, usize, u8)> {
    let mut out = vec![];
    let mut off = 0usize;
    while off + 7 <= data.len() {
        let left = 32768 - off % 32768;
        if left < 7 {
            off += left;
            continue;
        }
        let len = u16::from_le_bytes([data[off + 4], data[off + 5]]) as usize;
        out.push((off, len, data[off + 6]));
        off += 7 + len;
    }
    out
}

/// The known finding `log-fragment-header-not-checksummed`: the checksum of a log fragment covers
/// only its payload. Damage to a manifest fragment header is undetectable by the format in exactly
/// two cases: the type byte changed, or a length byte changed so that the fragment now extends
/// beyond the end of the file (indistinguishable from a torn tail). Any other length (shorter, or
/// longer but still inside the file) makes the payload checksum fail and must be detected.
fn is_manifest_header_byte(p: &CorruptPoint) -> bool {
    if !p.file.contains("MANIFEST") {
        return false;
    }
    let Mutation::Byte { offset, value } = &p.mutation else { return false };
    let Some(data) = p.image.files.get(&p.file) else { return false };
    let data = &data.0;
    for (off, _len, _ty) in log_fragments(data) {
        if *offset == off + 6 {
            return true;
        }
        if *offset == off + 4 || *offset == off + 5 {
            let mut lb = [data[off + 4], data[off + 5]];
            lb[*offset - off - 4] = *value;
            let new_len = u16::from_le_bytes(lb) as usize;
            return off + 7 + new_len > data.len();
        }
    }
    false
}

/// The known finding `wal-fragment-type-byte-not-checksummed`: same root cause as the manifest one
/// (the fragment checksum covers the payload only). A WAL fragment whose type byte is changed (e.g.
/// Last -> Full) hands its payload - the middle of some record - to the batch decoder as if it were a
/// record of its own; if those bytes happen to decode, entries that nobody wrote are applied.
fn is_wal_type_byte(p: &CorruptPoint) -> bool {
    if !p.file.contains("/wal/") {
        return false;
    }
    let Mutation::Byte { offset, .. } = &p.mutation else { return false };
    let Some(data) = p.image.files.get(&p.file) else { return false };
    log_fragments(&data.0).iter().any(|(off, _, _)| *offset == off + 6)
}

fn touched(fs: &MemFs, file: &str, offset: usize) -> bool {
    fs.was_read(file, offset) || fs.was_read(file, offset.saturating_sub(1))
}

fn mix(a: u64, b: u64) -> u64 {
    let mut x = a ^ b.wrapping_mul(0x9E37_79B9_7F4A_7C15);
    x ^= x >> 32;
    x = x.wrapping_mul(0xD6E8_FEB8_6659_FD93);
    x ^= x >> 32;
    x
}

pub enum Outcome {
    Ok(EvalInfo),
    Violation(CorruptViolation),
    Ungraceful(String),
    Hung(String),
}

pub fn guarded(p: &CorruptPoint) -> Outcome {
    let q = p.clone();
    match run_guarded("corrupt-case", move || eval_point(&q)) {
        Guarded::Done(Ok(i)) => Outcome::Ok(i),
        Guarded::Done(Err(v)) => Outcome::Violation(v),
        Guarded::Panicked(m) => Outcome::Ungraceful(m),
        Guarded::Hung(m) => Outcome::Hung(m),
    }
}

const KNOWN_SWALLOW: &str = "counter:iter_error_swallowed>0";
const KNOWN_HEADER: &str = "manifest-fragment-header-byte";
const KNOWN_WAL_TYPE: &str = "wal-fragment-type-byte";

pub fn replay_body(p: &CorruptPoint, msg: &str) -> Value {
    json!({"property": "C15", "engine": "corruptpoint", "point": p, "message": msg})
}

fn mutations_for(tier: Tier, h: u64, orig: u8) -> Vec<u8> {
    let mut vals: Vec<u8> = vec![];
    if tier == Tier::Thorough {
        for b in 0..8 {
            vals.push(orig ^ (1 << b));
        }
        vals.extend([0u8, 0xff, (h >> 8) as u8]);
    } else {
        vals.push(orig ^ (1 << (h % 8)));
        vals.push(match (h >> 3) % 3 {
            0 => 0,
            1 => 0xff,
            _ => (h >> 8) as u8,
        });
    }
    vals.sort();
    vals.dedup();
    vals.retain(|v| *v != orig);
    vals
}

pub fn worker(ctx: &WorkerCtx) -> WorkerResult {
    let images = match ctx.tier {
        Tier::Quick => 64u64,
        Tier::Thorough => 160,
    };
    let images = std::env::var("VERIF_CASES").ok().and_then(|s| s.parse().ok()).unwrap_or(images);
    let budget_per_image: usize = match ctx.tier {
        Tier::Quick => 2500,
        Tier::Thorough => 60_000,
    };
    let known = open_findings_for("C15");
    let res = RefCell::new(WorkerResult::default());
    let found: RefCell<Option<(CorruptPoint, String)>> = RefCell::new(None);
    let tier = ctx.tier;
    let mut runner = TestRunner::new(Config {
        cases: ctx.share(images).max(1) as u32,
        rng_seed: RngSeed::Fixed(ctx.derived_seed(15)),
        failure_persistence: None,
        max_shrink_iters: 0,
        ..Config::default()
    });
    let outcome = runner.run(&case_strategy(&image_params()), |case| {
        if found.borrow().is_some() {
            return Ok(());
        }
        let c = case.clone();
        let img = match run_guarded("image", move || build_image(&c)) {
            Guarded::Done(Ok(i)) => i,
            other => {
                res.borrow_mut().inconclusive.push(format!("image could not be built: {:?}", match other {
                    Guarded::Done(Err(e)) => e,
                    Guarded::Panicked(m) => m,
                    Guarded::Hung(m) => m,
                    _ => String::new(),
                }));
                return Ok(());
            }
        };
        let ch = hash_json(&case);
        let tables = img.files.keys().filter(|p| p.ends_with(".rdb")).count();
        {
            let mut r = res.borrow_mut();
            r.bump("images");
            *r.classes.entry("tables_in_images".into()).or_insert(0) += tables as u64;
            if r.samples.len() < 2 {
                r.samples.push(json!({
                    "image_of_workload": serde_json::to_value(&case).unwrap(),
                    "files": img.files.iter().map(|(p, d)| (p.clone(), d.0.len())).collect::<Vec<_>>(),
                    "wal_batches": img.wal_batches.len(),
                }));
            }
        }
        // the undamaged image must read back correctly, otherwise nothing can be judged
        let clean = CorruptPoint { image: img.clone(), file: "db/CURRENT".into(), mutation: Mutation::Truncate { len: usize::MAX } };
        let _ = clean;
        // enumerate
        let mut points: Vec<(String, Mutation)> = vec![];
        for (path, data) in &img.files {
            let n = data.0.len();
            let is_table = path.ends_with(".rdb");
            // a log of tens of kilobytes (the multi-fragment record, the trailer-aligned block): every
            // offset near a fragment start or end and near a block boundary, every 23rd offset of the
            // long payloads (all fragment headers are added below in any case)
            let frags: Vec<(usize, usize, u8)> = if !is_table && n > 6000 { log_fragments(&data.0) } else { vec![] };
            for off in 0..n {
                if !frags.is_empty() {
                    let near_edge = frags.iter().any(|(o, l, _)| (off >= *o && off < o + 64) || (off + 16 >= o + 7 + l && off < o + 7 + l));
                    let near_block = off % 32768 < 16 || off % 32768 >= 32768 - 16;
                    if !near_edge && !near_block && mix(ch, off as u64) % 23 != 0 {
                        continue;
                    }
                }
                let h = mix(ch, mix(path.len() as u64 ^ n as u64, off as u64));
                if tier == Tier::Quick && is_table && n - off > 220 && off % 3 != (h % 3) as usize && off % 3 != 0 {
                    continue;
                }
                if tier == Tier::Quick && is_table && n - off > 220 && off % 3 != 0 {
                    continue;
                }
                for v in mutations_for(tier, h, data.0[off]) {
                    points.push((path.clone(), Mutation::Byte { offset: off, value: v }));
                }
            }
            if is_table {
                let step = if tier == Tier::Thorough { 1 } else { (n / 24).max(1) };
                let mut l = 0;
                while l < n {
                    points.push((path.clone(), Mutation::Truncate { len: l }));
                    l += step;
                }
            }
        }
        if points.len() > budget_per_image {
            let keep = points.len() / budget_per_image + 1;
            let mut i = 0u64;
            points.retain(|_| {
                i += 1;
                mix(ch, i) % keep as u64 == 0
            });
        }
        // never sampled away: the header of every log fragment (WAL and manifest) - each type value,
        // and lengths 0, one less, one more, and far beyond the end of the file
        for (path, data) in &img.files {
            if !(path.contains("MANIFEST") || path.contains("/wal/")) {
                continue;
            }
            for (off, len, ty) in log_fragments(&data.0) {
                for t in 0u8..=5 {
                    if t != ty {
                        points.push((path.clone(), Mutation::Byte { offset: off + 6, value: t }));
                    }
                }
                let lo = (len & 0xff) as u8;
                let hi = (len >> 8) as u8;
                for v in [0u8, lo.wrapping_sub(1), lo.wrapping_add(1)] {
                    if v != lo {
                        points.push((path.clone(), Mutation::Byte { offset: off + 4, value: v }));
                    }
                }
                for v in [0u8, hi.wrapping_add(1), 0xff] {
                    if v != hi {
                        points.push((path.clone(), Mutation::Byte { offset: off + 5, value: v }));
                    }
                }
            }
        }
        points.sort_by(|a, b| (&a.0, format!("{:?}", a.1)).cmp(&(&b.0, format!("{:?}", b.1))));
        points.dedup();
        for (file, mutation) in points {
            let p = CorruptPoint { image: img.clone(), file: file.clone(), mutation: mutation.clone() };
            let out = guarded(&p);
            let mut r = res.borrow_mut();
            r.evaluations += 1;
            let kind = if file.ends_with(".rdb") {
                "table"
            } else if file.contains("MANIFEST") {
                "manifest"
            } else if file.contains("/wal/") {
                "wal"
            } else {
                "current"
            };
            match out {
                Outcome::Ok(i) => {
                    if i.touched {
                        r.nontrivial_hashes.push(mix(ch, hash_json(&(file.clone(), &mutation))));
                    }
                    if i.compacted {
                        *r.classes.entry("table_damage_then_compact_range_then_reread".into()).or_insert(0) += 1;
                    }
                    if i.open_failed {
                        *r.classes.entry(format!("{kind}_damage_open_failed")).or_insert(0) += 1;
                    } else if i.read_errors > 0 {
                        *r.classes.entry(format!("{kind}_damage_read_error")).or_insert(0) += 1;
                    } else if i.wal_skipped_state {
                        *r.classes.entry("wal_damage_records_skipped".into()).or_insert(0) += 1;
                    } else {
                        *r.classes.entry(format!("{kind}_damage_harmless")).or_insert(0) += 1;
                    }
                }
                Outcome::Ungraceful(m) => {
                    *r.classes.entry(format!("{kind}_damage_detected_ungraceful_panic")).or_insert(0) += 1;
                    if r.notes.len() < 5 {
                        r.notes.push(format!("detected-ungraceful: {kind} damage made a call panic: {}", m.chars().take(200).collect::<String>()));
                    }
                }
                Outcome::Hung(m) => {
                    r.inconclusive.push(format!("a call did not return on a damaged {kind} (C09's property): {m}"));
                }
                Outcome::Violation(v) => {
                    if v.swallowed > 0 && !v.invented {
                        if let Some(k) = known.iter().find(|k| k.signature == KNOWN_SWALLOW) {
                            *r.excluded_known.entry(k.id.clone()).or_insert(0) += 1;
                            continue;
                        }
                    }
                    if v.manifest_header && !v.invented {
                        if let Some(k) = known.iter().find(|k| k.signature == KNOWN_HEADER) {
                            *r.excluded_known.entry(k.id.clone()).or_insert(0) += 1;
                            continue;
                        }
                    }
                    if v.wal_type_byte {
                        if let Some(k) = known.iter().find(|k| k.signature == KNOWN_WAL_TYPE) {
                            *r.excluded_known.entry(k.id.clone()).or_insert(0) += 1;
                            continue;
                        }
                    }
                    *found.borrow_mut() = Some((p, v.what));
                    return Ok(());
                }
            }
        }
        Ok(())
    });
    let mut r = res.into_inner();
    if let Err(TestError::Abort(reason)) = &outcome {
        r.inconclusive.push(format!("proptest aborted: {}", reason.message()));
    }
    if let Some((p, e)) = found.into_inner() {
        let path = write_replay("C15", ctx.seed, ctx.worker, 0, &replay_body(&p, &e));
        r.violations.push(ViolationRec { replay: path, message: format!("{} damaged by {:?}: {e}", p.file, p.mutation) });
    }
    r
}

pub fn replay(v: &Value) -> Result<(), String> {
    let p: CorruptPoint = serde_json::from_value(v["point"].clone()).map_err(|e| e.to_string())?;
    for _ in 0..3 {
        match guarded(&p) {
            Outcome::Ok(_) | Outcome::Ungraceful(_) => {}
            Outcome::Violation(v) => return Err(v.what),
            Outcome::Hung(m) => return Err(format!("hang: {m}")),
        }
    }
    Ok(())
}
