//! C02 (crash at any point), C16 (torn final write): fault enumeration over generated workloads.

use crate::case::*;
use crate::crash::*;
use crate::engine::Model;
use crate::gen::{case_strategy, GenParams};
use crate::guard::{run_guarded, Guarded};
use crate::memfs::{JOp, MemFs};
use crate::runner::*;
use proptest::prelude::*;
use proptest::sample::select;
use proptest::test_runner::{Config, RngSeed, TestCaseError, TestError, TestRunner};
use serde::{Deserialize, Serialize};
use serde_json::{json, Value};
use std::cell::RefCell;
use std::sync::Arc;

pub fn workload_params() -> GenParams {
    let mut p = GenParams::base();
    p.w.get = 0;
    p.w.getall = 0;
    p.w.hammer = 0;
    p.w.descriptor = 0;
    p.w.wait_idle = 2;
    p.w.batch = 10;
    p.w.reopen = 4;
    p.big_value_permille = 40;
    p.max_ops = 60;
    p.max_chunks = 5;
    p.max_universe = 20;
    p
}

/// A self-contained failing point: everything needed to rebuild the image and re-check it.
#[derive(Clone, Debug, Serialize, Deserialize)]
pub struct PointReplay {
    pub journal: Vec<JOp>,
    pub k: usize,
    pub torn: Option<usize>,
    /// depth-2: number of entries of the (nested) recovery journal that were kept, if any
    pub cfg: Cfg,
    #[serde(with = "crate::case::hexpairs")]
    pub accept: Vec<Vec<(Vec<u8>, Vec<u8>)>>,
    pub universe: Vec<Vec<u8>>,
    pub plan: PostPlan,
    pub counter: u64,
    /// base of the per-level size limits (0 = built-in), as in the recorded workload
    #[serde(default)]
    pub level_base: u64,
}

pub fn eval_point(p: &PointReplay) -> Result<PointInfo, String> {
    crate::engine::set_level_limits(p.level_base);
    let img = Arc::new(MemFs::from_journal(&p.journal, p.k, p.torn, false));
    let accept: Vec<Model> = p.accept.iter().map(|m| m.iter().cloned().collect()).collect();
    check_recovery(img, p.cfg, &accept, &p.universe, &p.plan, p.counter)
}

fn mix(a: u64, b: u64) -> u64 {
    let mut x = a ^ b.wrapping_mul(0x9E37_79B9_7F4A_7C15);
    x ^= x >> 32;
    x = x.wrapping_mul(0xD6E8_FEB8_6659_FD93);
    x ^= x >> 32;
    x
}

struct Tally {
    points: u64,
    nontrivial: Vec<u64>,
    classes: std::collections::BTreeMap<String, u64>,
}

/// Enumerate the crash points of one recorded workload. Returns the first failing point.
fn enumerate_c02(
    ch: u64,
    universe: &[Vec<u8>],
    rec: &Recorded,
    tier: Tier,
    dircheck: bool,
    tally: &mut Tally,
) -> Option<(PointReplay, String)> {
    let j = rec.journal.len();
    let all = tier == Tier::Thorough || j <= 400;
    for k in 0..=j {
        if !all {
            let structural = k < j && !matches!(rec.journal[k], JOp::Append { .. })
                || k > 0 && !matches!(rec.journal[k - 1], JOp::Append { .. });
            if !structural && mix(ch, k as u64) % 4 != 0 {
                continue;
            }
        }
        let accept = rec.acceptable(k, false);
        if accept.len() > 2 {
            *tally.classes.entry("crash_with_several_batches_in_flight".into()).or_insert(0) += 1;
        }
        let base_cfg = rec.cfg_at(k);
        // alternate the two reuse settings and occasionally a different config over the points
        let h = mix(ch, 0x1000 + k as u64);
        let cfg = if h % 5 == 0 {
            Cfg { memtable: MEMTABLE_SIZES[(h >> 8) as usize % 4], file: FILE_SIZES[(h >> 16) as usize % 4], block: BLOCK_SIZES[(h >> 24) as usize % 5], reuse: base_cfg.reuse }
        } else {
            base_cfg
        };
        let plan = PostPlan {
            // a quarter of the points write a value of several log blocks first (a record of several
            // fragments appended to whatever log the recovery decided to keep using)
            writes: if (h >> 6) % 4 == 0 { vec![40_000, 20] } else { vec![20] },
            reuse1: (h >> 3) & 1 == 1,
            reuse2: (h >> 4) & 1 == 1,
            dircheck,
        };
        let p = PointReplay {
            journal: rec.journal[..k.min(j)].to_vec(),
            k,
            torn: None,
            cfg,
            accept: accept.iter().map(|m| m.iter().map(|(a, b)| (a.clone(), b.clone())).collect()).collect(),
            universe: universe.to_vec(),
            plan,
            counter: rec.counter,
            level_base: rec.level_base,
        };
        tally.points += 1;
        let result = judge(&p, dircheck, tally);
        match result {
            Ok(info) => {
                // non-trivial: strictly inside an API call or background work, with acknowledged data
                let a = rec.acked(k);
                let inside = rec.spans.iter().any(|(b, r)| *b < k && k < *r)
                    || !rec.spans.iter().any(|(b, r)| *b == k || *r == k);
                if a >= 1 && inside {
                    tally.nontrivial.push(mix(ch, k as u64));
                }
                if info.recovered_inflight {
                    *tally.classes.entry("recovered_inflight_batch".into()).or_insert(0) += 1;
                }
                if info.wal_reused {
                    *tally.classes.entry("wal_reused_by_recovery".into()).or_insert(0) += 1;
                }
                if k < j {
                    *tally.classes.entry(format!("crash_before_{}", rec.journal[k].kind())).or_insert(0) += 1;
                }
                // depth 2: crash the recovery itself at a few of its own points
                if mix(ch, 0x2000 + k as u64) % 16 == 0 {
                    if let Some(f) = depth2(&p, rec, tally, ch) {
                        return Some(f);
                    }
                }
            }
            Err(e) => return Some((p, e)),
        }
    }
    None
}

/// Evaluate a crash point. With `dircheck` (C11) only two kinds of failure are reported: the
/// directory is not exact after recovery, or a file that the recovery needed had been deleted
/// (differential oracle: the image recovers correctly once removed WAL/table files are put back).
fn judge(p: &PointReplay, dircheck: bool, tally: &mut Tally) -> Result<PointInfo, String> {
    let result = eval_point(p);
    if !dircheck {
        return result;
    }
    match result {
        Err(e) if e.contains("directory differs") => Err(e),
        Err(e) => {
            let img = Arc::new(MemFs::from_journal_keep_removed(&p.journal, p.k));
            let accept: Vec<Model> = p.accept.iter().map(|m| m.iter().cloned().collect()).collect();
            let mut plan = p.plan.clone();
            plan.dircheck = false;
            match check_recovery(img, p.cfg, &accept, &p.universe, &plan, p.counter) {
                Ok(_) => Err(format!(
                    "a file that crash recovery still needed had been deleted: the crash image fails ({e}) but recovers correctly when the WAL/table files removed before the crash are put back"
                )),
                Err(_) => {
                    *tally.classes.entry("crash_failure_not_caused_by_a_deletion_(C02s_business)".into()).or_insert(0) += 1;
                    Ok(PointInfo::default())
                }
            }
        }
        ok => ok,
    }
}

/// Run the recovery of point `p` on a journalling image and crash it again at sampled prefixes.
fn depth2(p: &PointReplay, _rec: &Recorded, tally: &mut Tally, ch: u64) -> Option<(PointReplay, String)> {
    let img = Arc::new(MemFs::from_journal(&p.journal, p.k, None, true));
    let cfg1 = Cfg { reuse: p.plan.reuse1, ..p.cfg };
    {
        let db = raindb::DB::open(crate::engine::options(&img, &cfg1)).ok()?;
        db.verif_wait_idle(std::time::Duration::from_secs(600));
        drop(db);
    }
    let j2 = img.journal();
    if j2.is_empty() {
        return None;
    }
    let mut combined = p.journal.clone();
    combined.extend(j2.iter().cloned());
    let n = j2.len();
    let step = (n / 6).max(1);
    let mut k2 = 1;
    while k2 <= n {
        let mut q = p.clone();
        q.journal = combined[..p.k + k2].to_vec();
        q.k = p.k + k2;
        q.plan.reuse1 = mix(ch, k2 as u64) & 1 == 1;
        tally.points += 1;
        *tally.classes.entry("depth2_crash_during_recovery".into()).or_insert(0) += 1;
        match judge(&q, q.plan.dircheck, tally) {
            Ok(_) => {
                tally.nontrivial.push(mix(ch, (q.k as u64) << 20 | k2 as u64));
            }
            Err(e) => return Some((q, format!("(crash during recovery from an earlier crash) {e}"))),
        }
        k2 += step;
    }
    None
}

fn enumerate_c16(ch: u64, universe: &[Vec<u8>], rec: &Recorded, tier: Tier, tally: &mut Tally) -> Option<(PointReplay, String)> {
    let j = rec.journal.len();
    for k in 0..j {
        let JOp::Append { data, .. } = &rec.journal[k] else { continue };
        let n = data.len();
        if n < 2 {
            continue;
        }
        let Some(target) = append_target(&rec.journal, k) else { continue };
        let is_wal = target.contains("/wal/");
        let is_manifest = target.contains("MANIFEST") || target.ends_with(".dbtemp");
        if !is_wal && !is_manifest {
            continue;
        }
        let mut lens: Vec<usize> = vec![1, n / 2, n - 1];
        if tier == Tier::Thorough && n <= 64 {
            lens = (1..n).collect();
        }
        if tier == Tier::Thorough {
            // tear right after the 7-byte fragment header and one byte into the payload
            lens.extend([6usize, 7, 8].iter().filter(|l| **l < n));
        }
        lens.sort();
        lens.dedup();
        if tier == Tier::Quick && j > 300 && mix(ch, k as u64) % 3 != 0 {
            continue;
        }
        for t in lens {
            let accept = rec.acceptable(k, true);
            let h = mix(ch, ((k as u64) << 24) ^ t as u64);
            let combos: Vec<(bool, bool)> = if tier == Tier::Thorough {
                vec![(false, false), (false, true), (true, false), (true, true)]
            } else {
                vec![((h & 1) == 1, (h & 2) == 2), ((h & 1) == 0, (h & 2) == 0)]
            };
            for (r1, r2) in combos {
                let nw = 1 + (h >> 8) % 5;
                let mut writes: Vec<u32> = (0..nw).map(|i| 10 + ((h >> (12 + 4 * i)) % 90) as u32).collect();
                if (h >> 5) & 1 == 1 {
                    writes[0] = 40_000; // > 32 KiB: spans WAL blocks after the torn tail
                }
                let p = PointReplay {
                    journal: rec.journal[..=k].to_vec(),
                    k,
                    torn: Some(t),
                    cfg: rec.cfg_at(k),
                    accept: accept.iter().map(|m| m.iter().map(|(a, b)| (a.clone(), b.clone())).collect()).collect(),
                    universe: universe.to_vec(),
                    plan: PostPlan { writes, reuse1: r1, reuse2: r2, dircheck: false },
                    counter: rec.counter,
                    level_base: rec.level_base,
                };
                tally.points += 1;
                match eval_point(&p) {
                    Ok(info) => {
                        let multi_fragment = n >= 7 && matches!(data.get(6), Some(1) | Some(2) | Some(3));
                        if info.wal_reused || multi_fragment {
                            tally.nontrivial.push(mix(h, (r1 as u64) << 1 | r2 as u64));
                        }
                        let cls = if is_wal { "torn_wal_append" } else { "torn_manifest_or_current_append" };
                        *tally.classes.entry(cls.into()).or_insert(0) += 1;
                        if info.wal_reused {
                            *tally.classes.entry("torn_file_reused_by_recovery".into()).or_insert(0) += 1;
                        }
                        if multi_fragment {
                            *tally.classes.entry("tear_inside_multi_fragment_record".into()).or_insert(0) += 1;
                        }
                    }
                    Err(e) => return Some((p, e)),
                }
            }
        }
    }
    None
}

pub enum WlOutcome {
    Pass,
    Fail(PointReplay, String),
    Skip(String),
}

fn run_workload(id: &str, case: &Case, tier: Tier, tally: &mut Tally) -> WlOutcome {
    let rec = match record(case) {
        Ok(r) => r,
        Err(e) => return WlOutcome::Skip(e),
    };
    let ch = hash_json(case);
    let r = match id {
        "C02" => enumerate_c02(ch, &case.universe, &rec, tier, false, tally),
        "C11" => enumerate_c02(ch, &case.universe, &rec, tier, true, tally),
        "C16" => enumerate_c16(ch, &case.universe, &rec, tier, tally),
        _ => unreachable!(),
    };
    match r {
        None => WlOutcome::Pass,
        Some((p, e)) => WlOutcome::Fail(p, e),
    }
}

/// Concurrent workload (2-3 writers, disjoint key groups, group commits): same enumeration, the
/// acceptable states are the acknowledged prefix of every thread plus all-or-nothing of each
/// thread's in-flight write.
fn run_conc_workload(id: &str, wl: &ConcWl, tier: Tier, tally: &mut Tally) -> WlOutcome {
    let rec = match record_conc(wl) {
        Ok(r) => r,
        Err(e) => return WlOutcome::Skip(e),
    };
    *tally.classes.entry("concurrent_workloads".into()).or_insert(0) += 1;
    if rec.group_commit {
        *tally.classes.entry("concurrent_workloads_with_a_group_commit_of_several_writers".into()).or_insert(0) += 1;
    }
    let ch = hash_json(wl);
    let universe = conc_universe(wl);
    let r = match id {
        "C02" => enumerate_c02(ch, &universe, &rec, tier, false, tally),
        "C16" => enumerate_c16(ch, &universe, &rec, tier, tally),
        _ => unreachable!(),
    };
    match r {
        None => WlOutcome::Pass,
        Some((p, e)) => WlOutcome::Fail(p, format!("(concurrent writers) {e}")),
    }
}

fn conc_wl_strategy() -> impl Strategy<Value = ConcWl> {
    use crate::sched::Directive;
    let val = prop_oneof![
        20 => (8u32..200, prop::bool::weighted(0.2)).prop_map(|(len, compressible)| Val { len, compressible }),
        2 => (0u32..8).prop_map(|len| Val { len, compressible: false }),
        1 => (33_000u32..70_000).prop_map(|len| Val { len, compressible: false }),
    ];
    let op = prop_oneof![
        30 => (0u8..CONC_GROUP, val.clone()).prop_map(|(j, v)| WOp::Put(j, v)),
        6 => (0u8..CONC_GROUP).prop_map(WOp::Del),
        10 => prop::collection::vec((0u8..CONC_GROUP, prop::option::weighted(0.8, val.clone())), 1..5).prop_map(WOp::Batch),
        2 => Just(WOp::Flush),
    ];
    (2usize..=3).prop_flat_map(move |nt| {
        let hold = (0..nt as i32, select(vec!["write.before_wal", "write.before_wal", "write.after_wal", "write.after_memtable"]), 0u32..5, 5u32..40)
            .prop_map(|(role, p, nth, max_hold_ms)| Directive { role, point: p.to_string(), nth, max_hold_ms, linger_ms: 0, every: 0 });
        let bg = (select(vec!["flush.before_build", "manifest.before_append", "manifest.after_append", "gc.before_delete"]), 0u32..3, 5u32..30)
            .prop_map(|(p, nth, max_hold_ms)| Directive { role: -1, point: p.to_string(), nth, max_hold_ms, linger_ms: 0, every: 0 });
        (
            (select(vec![512usize, 700, 1500, 100_000]), select(vec![400u64, 1024, 1024 * 1024]), select(vec![16usize, 128, 4096]), any::<bool>())
                .prop_map(|(memtable, file, block, reuse)| Cfg { memtable, file, block, reuse }),
            prop::collection::vec(prop::collection::vec(op.clone(), 2..9), nt),
            prop::collection::vec(prop_oneof![4 => hold, 1 => bg], 1..4),
            prop_oneof![2 => Just(0u32), 1 => any::<u32>()],
        )
    })
    .prop_map(|(cfg, programs, directives, sync_mask)| ConcWl { cfg, programs, directives, sync_mask })
}

pub fn replay_body(id: &str, p: &PointReplay, msg: &str) -> Value {
    json!({"property": id, "engine": "crashpoint", "point": p, "message": msg})
}

pub fn worker(ctx: &WorkerCtx, id: &'static str, quick_wl: u64, thorough_wl: u64) -> WorkerResult {
    let total = match ctx.tier {
        Tier::Quick => quick_wl,
        Tier::Thorough => thorough_wl,
    };
    let total = std::env::var("VERIF_CASES").ok().and_then(|s| s.parse().ok()).unwrap_or(total);
    let cases = ctx.share(total).max(1);
    let res = RefCell::new(WorkerResult::default());
    let failed = RefCell::new(false);
    let found: RefCell<Option<(PointReplay, String)>> = RefCell::new(None);
    let mut runner = TestRunner::new(Config {
        cases: cases as u32,
        rng_seed: RngSeed::Fixed(ctx.derived_seed(7)),
        failure_persistence: None,
        max_shrink_iters: 60,
        ..Config::default()
    });
    let tier = ctx.tier;
    let outcome = runner.run(&case_strategy(&workload_params()), |case| {
        let c = case.clone();
        let g = run_guarded("crash-case", move || {
            let mut tally = Tally { points: 0, nontrivial: vec![], classes: Default::default() };
            let out = run_workload(id, &c, tier, &mut tally);
            (out, tally)
        });
        let counting = !*failed.borrow();
        let mut r = res.borrow_mut();
        match g {
            Guarded::Done((out, tally)) => {
                if counting {
                    r.evaluations += tally.points;
                    r.nontrivial_hashes.extend(tally.nontrivial);
                    for (k, v) in tally.classes {
                        *r.classes.entry(k).or_insert(0) += v;
                    }
                    r.bump("workloads");
                }
                match out {
                    WlOutcome::Pass => {
                        if counting && r.samples.len() < 2 {
                            r.samples.push(json!({"workload": serde_json::to_value(&case).unwrap()}));
                        }
                        Ok(())
                    }
                    WlOutcome::Skip(e) => {
                        if counting {
                            r.inconclusive.push(format!("workload could not be recorded: {e}"));
                        }
                        Ok(())
                    }
                    WlOutcome::Fail(p, e) => {
                        *failed.borrow_mut() = true;
                        *found.borrow_mut() = Some((p, e.clone()));
                        Err(TestCaseError::fail(e))
                    }
                }
            }
            Guarded::Panicked(m) => {
                if counting {
                    r.inconclusive.push(format!("panic while evaluating a workload (C09's property): {m}"));
                }
                Ok(())
            }
            Guarded::Hung(m) => {
                if counting {
                    r.inconclusive.push(format!("a call did not return (C09's property): {m}"));
                }
                Ok(())
            }
        }
    });
    let mut r = res.into_inner();
    match outcome {
        Ok(()) => {}
        Err(TestError::Fail(_, _case)) => {
            // the last failing point recorded belongs to the most shrunk failing workload
            if let Some((p, e)) = found.into_inner() {
                let p = minimise_point(p);
                let body = replay_body(id, &p, &e);
                let path = write_replay(id, ctx.seed, ctx.worker, 0, &body);
                r.violations.push(ViolationRec { replay: path, message: e });
            }
            return r;
        }
        Err(TestError::Abort(reason)) => r.inconclusive.push(format!("proptest aborted: {}", reason.message())),
    }
    if id == "C11" {
        return r;
    }
    // second campaign: concurrent writers (group commits, several batches in flight at the crash)
    let conc_cases = (cases / 3).max(1);
    let res = RefCell::new(r);
    let failed = RefCell::new(false);
    let found: RefCell<Option<(PointReplay, String)>> = RefCell::new(None);
    let mut runner = TestRunner::new(Config {
        cases: conc_cases as u32,
        rng_seed: RngSeed::Fixed(ctx.derived_seed(8)),
        failure_persistence: None,
        max_shrink_iters: 60,
        ..Config::default()
    });
    let outcome = runner.run(&conc_wl_strategy(), |wl| {
        let w = wl.clone();
        let g = run_guarded("crash-conc-case", move || {
            let mut tally = Tally { points: 0, nontrivial: vec![], classes: Default::default() };
            let out = run_conc_workload(id, &w, tier, &mut tally);
            (out, tally)
        });
        let counting = !*failed.borrow();
        let mut r = res.borrow_mut();
        match g {
            Guarded::Done((out, tally)) => {
                if counting {
                    r.evaluations += tally.points;
                    r.nontrivial_hashes.extend(tally.nontrivial);
                    for (k, v) in tally.classes {
                        *r.classes.entry(k).or_insert(0) += v;
                    }
                }
                match out {
                    WlOutcome::Pass => {
                        if counting && r.samples.len() < 3 {
                            r.samples.push(json!({"concurrent_workload": serde_json::to_value(&wl).unwrap()}));
                        }
                        Ok(())
                    }
                    WlOutcome::Skip(e) => {
                        if counting {
                            r.inconclusive.push(format!("concurrent workload could not be recorded: {e}"));
                        }
                        Ok(())
                    }
                    WlOutcome::Fail(p, e) => {
                        *failed.borrow_mut() = true;
                        *found.borrow_mut() = Some((p, e.clone()));
                        Err(TestCaseError::fail(e))
                    }
                }
            }
            Guarded::Panicked(m) => {
                if counting {
                    r.inconclusive.push(format!("panic while evaluating a concurrent workload (C09's property): {m}"));
                }
                Ok(())
            }
            Guarded::Hung(m) => {
                if counting {
                    r.inconclusive.push(format!("a call did not return (C09's property): {m}"));
                }
                Ok(())
            }
        }
    });
    let mut r = res.into_inner();
    match outcome {
        Ok(()) => {}
        Err(TestError::Fail(_, _)) => {
            if let Some((p, e)) = found.into_inner() {
                let p = minimise_point(p);
                let body = replay_body(id, &p, &e);
                let path = write_replay(id, ctx.seed, ctx.worker, 1, &body);
                r.violations.push(ViolationRec { replay: path, message: e });
            }
        }
        Err(TestError::Abort(reason)) => r.inconclusive.push(format!("proptest aborted: {}", reason.message())),
    }
    r
}

/// Drop journal entries that are irrelevant to the failure (files that no longer exist at the crash
/// point keep their entries; this only trims what follows the crash point).
fn minimise_point(mut p: PointReplay) -> PointReplay {
    let keep = if p.torn.is_some() { p.k + 1 } else { p.k };
    p.journal.truncate(keep);
    p
}

pub fn replay(v: &Value) -> Result<(), String> {
    let p: PointReplay = serde_json::from_value(v["point"].clone()).map_err(|e| e.to_string())?;
    for _ in 0..3 {
        let q = p.clone();
        match run_guarded("crash-replay", move || eval_point(&q)) {
            Guarded::Done(Ok(_)) => {}
            Guarded::Done(Err(e)) => return Err(e),
            Guarded::Panicked(m) => return Err(format!("panic: {m}")),
            Guarded::Hung(m) => return Err(format!("hang: {m}")),
        }
    }
    Ok(())
}
