//! C08: single injected I/O failure at every position of the filesystem call stream.

use crate::case::*;
use crate::engine::{options_dyn, Model};
use crate::faultfs::FaultFs;
use crate::gen::{case_strategy, GenParams};
use crate::guard::{run_guarded, Guarded};
use crate::memfs::MemFs;
use crate::runner::*;
use proptest::prelude::*;
use proptest::test_runner::{Config, RngSeed, TestCaseError, TestError, TestRunner};
use raindb::fs::FileSystem;
use raindb::verif::Counter;
use raindb::{Batch, RainDBError, RainDbIterator, ReadOptions, WriteOptions, DB};
use serde::{Deserialize, Serialize};
use serde_json::{json, Value};
use std::cell::RefCell;
use std::collections::BTreeSet;
use std::sync::Arc;
use std::time::Duration;

pub fn workload_params() -> GenParams {
    let mut p = GenParams::base();
    p.w.hammer = 0;
    p.w.descriptor = 0;
    p.w.get = 14;
    p.w.getall = 4;
    p.w.batch = 8;
    p.w.reopen = 3;
    p.w.flush = 7;
    p.w.compact = 5;
    p.big_value_permille = 5;
    p.max_ops = 70;
    p.max_chunks = 6;
    p.max_universe = 16;
    // interpreted here as: IterNew = a scan that is not preceded by gets (the tables are opened by the
    // iterator itself, e.g. right after a reopen), IterOp = a seek walk on one iterator that retries a
    // failed seek
    p.w.iter_new = 5;
    p.w.iter_op = 12;
    p
}

type Items = Vec<(Vec<u8>, Option<Vec<u8>>)>;

#[derive(Clone, Debug, Serialize, Deserialize)]
pub struct FaultPoint {
    /// C11 mode: only judge the directory after the run (no dead files kept after a failed read)
    #[serde(default)]
    pub dircheck: bool,
    pub case: Case,
    /// index of the failed call, counted from the end of the initial open; None = fault-free run
    pub pos: Option<u64>,
    pub sticky: bool,
    /// the failing write/append leaves the first half of its buffer in the file
    #[serde(default)]
    pub partial: bool,
    /// instead of a position: fail the n-th write/append (1-based, counted from the end of the initial
    /// open) to a file whose name contains the string, once. Independent of how the calls of the
    /// client and the background thread interleave.
    #[serde(default)]
    pub named: Option<(String, u32)>,
}

#[derive(Default, Debug, Clone)]
pub struct FaultInfo {
    pub calls: u64,
    pub kinds: Vec<&'static str>,
    pub fired: Option<String>,
    pub api_calls_after_fault: u64,
    pub swallowed: u64,
    pub errors_returned: u64,
}

#[derive(Debug, Clone)]
pub struct FaultViolation {
    pub what: String,
    pub swallowed: u64,
}

struct Run<'a> {
    case: &'a Case,
    events: Vec<(bool, Items)>,
    counter: u64,
    info: FaultInfo,
}

impl<'a> Run<'a> {
    /// All values key `k` may legitimately have now.
    fn allowed(&self, k: &[u8]) -> Vec<Option<Vec<u8>>> {
        let mut set: Vec<Option<Vec<u8>>> = vec![None];
        for (definite, items) in &self.events {
            let mut eff: Option<Option<Vec<u8>>> = None;
            for (ik, iv) in items {
                if ik.as_slice() == k {
                    eff = Some(iv.clone());
                }
            }
            if let Some(v) = eff {
                if *definite {
                    set = vec![v];
                } else if !set.contains(&v) {
                    set.push(v);
                }
            }
        }
        set
    }

    fn definite_model(&self) -> Model {
        let mut m = Model::new();
        for (definite, items) in &self.events {
            if *definite {
                for (k, v) in items {
                    match v {
                        Some(v) => {
                            m.insert(k.clone(), v.clone());
                        }
                        None => {
                            m.remove(k);
                        }
                    }
                }
            }
        }
        m
    }

    fn check_get(&mut self, db: &DB, k: &[u8]) -> Result<(), String> {
        let r = db.get(ReadOptions::default(), k);
        let allowed = self.allowed(k);
        match r {
            Ok(v) => {
                if !allowed.contains(&Some(v.clone())) {
                    return Err(format!(
                        "get({}) returned {} but the acknowledged state allows only {:?}",
                        hex(k),
                        hex(&v),
                        allowed.iter().map(|a| a.as_ref().map(|v| hex(v))).collect::<Vec<_>>()
                    ));
                }
            }
            Err(RainDBError::KeyNotFound) => {
                if !allowed.contains(&None) {
                    return Err(format!(
                        "get({}) returned KeyNotFound but a write of {} to it was acknowledged (no error was reported)",
                        hex(k),
                        allowed[0].as_ref().map(|v| hex(v)).unwrap_or_default()
                    ));
                }
            }
            Err(_) => {
                self.info.errors_returned += 1;
            }
        }
        Ok(())
    }

    fn check_scan(&mut self, db: &DB) -> Result<(), String> {
        let mut it = match db.new_iterator(ReadOptions::default()) {
            Ok(it) => it,
            Err(_) => {
                self.info.errors_returned += 1;
                return Ok(());
            }
        };
        if it.seek_to_first().is_err() {
            self.info.errors_returned += 1;
            return Ok(());
        }
        let mut seen: Vec<Vec<u8>> = vec![];
        while it.is_valid() {
            let (k, v) = it.current().unwrap();
            if let Some(prev) = seen.last() {
                if prev >= k {
                    return Err(format!("scan returned {} after {}", hex(k), hex(prev)));
                }
            }
            let allowed = self.allowed(k);
            if !allowed.contains(&Some(v.clone())) {
                return Err(format!(
                    "scan returned ({}, {}) but the acknowledged state allows only {:?}",
                    hex(k),
                    hex(v),
                    allowed.iter().map(|a| a.as_ref().map(|v| hex(v))).collect::<Vec<_>>()
                ));
            }
            seen.push(k.clone());
            it.next();
        }
        if it.take_error().is_some() {
            // the scan stopped early and says so through its status channel
            self.info.errors_returned += 1;
            return Ok(());
        }
        let seen: BTreeSet<Vec<u8>> = seen.into_iter().collect();
        for k in self.case.universe.iter() {
            let allowed = self.allowed(k);
            if !allowed.contains(&None) && !seen.contains(k) {
                return Err(format!(
                    "scan ended without an error but did not return {} whose write was acknowledged",
                    hex(k)
                ));
            }
        }
        Ok(())
    }

    /// One iterator, several seeks (each followed by a few steps). A seek that returns an error is
    /// retried once on the same iterator. Whenever a seek returned Ok and no error is pending, the
    /// iterator must stand on an allowed pair at or after the target and must not have skipped a key
    /// that is definitely present; the same for every step.
    fn check_seeks(&mut self, db: &DB, start: usize) -> Result<(), String> {
        let mut it = match db.new_iterator(ReadOptions::default()) {
            Ok(it) => it,
            Err(_) => {
                self.info.errors_returned += 1;
                return Ok(());
            }
        };
        let n = self.case.universe.len();
        let present: Vec<Vec<u8>> = self.case.universe.iter().filter(|k| !self.allowed(k).contains(&None)).cloned().collect();
        for round in 0..5usize {
            let target = self.case.universe[(start + round * 3) % n].clone();
            let mut positioned = it.seek(&target).is_ok();
            if !positioned {
                self.info.errors_returned += 1;
                positioned = it.seek(&target).is_ok();
                if !positioned {
                    self.info.errors_returned += 1;
                    continue;
                }
            }
            let mut lower = target.clone();
            let mut inclusive = true;
            let mut reseeked = false;
            for _step in 0..6 {
                if let Some(_e) = it.take_error() {
                    self.info.errors_returned += 1;
                    if reseeked {
                        break;
                    }
                    // a step failed: go back to the target on the same iterator (the block the iterator
                    // had just left) and judge that position
                    reseeked = true;
                    if it.seek(&target).is_err() {
                        self.info.errors_returned += 1;
                        break;
                    }
                    lower = target.clone();
                    inclusive = true;
                    continue;
                }
                let cur: Option<(Vec<u8>, Vec<u8>)> = if it.is_valid() { it.current().map(|(k, v)| (k.clone(), v.clone())) } else { None };
                // no definitely-present key between the lower bound and the position may be skipped
                let skipped = present.iter().find(|k| {
                    let after_lower = if inclusive { **k >= lower } else { **k > lower };
                    after_lower && cur.as_ref().map_or(true, |(ck, _)| *k < ck)
                });
                if let Some(k) = skipped {
                    return Err(format!(
                        "iterator positioned by seek({}) (+steps) without an error stands on {} and skipped {} whose write was acknowledged",
                        hex(&target),
                        cur.as_ref().map(|(k, _)| hex(k)).unwrap_or_else(|| "<end>".into()),
                        hex(k)
                    ));
                }
                let Some((ck, cv)) = cur else { break };
                let ok_order = if inclusive { ck >= lower } else { ck > lower };
                if !ok_order {
                    return Err(format!("iterator positioned by seek({}) stands on {} which is before its lower bound {}", hex(&target), hex(&ck), hex(&lower)));
                }
                let allowed = self.allowed(&ck);
                if !allowed.contains(&Some(cv.clone())) {
                    return Err(format!(
                        "iterator returned ({}, {}) but the acknowledged state allows only {:?}",
                        hex(&ck),
                        hex(&cv),
                        allowed.iter().map(|a| a.as_ref().map(|v| hex(v))).collect::<Vec<_>>()
                    ));
                }
                lower = ck;
                inclusive = false;
                it.next();
            }
        }
        Ok(())
    }

    fn write(&mut self, db: &DB, items: Items) {
        let mut b = Batch::new();
        for (k, v) in &items {
            match v {
                Some(v) => {
                    b.add_put(k.clone(), v.clone());
                }
                None => {
                    b.add_delete(k.clone());
                }
            }
        }
        match db.apply(WriteOptions::default(), b) {
            Ok(()) => self.events.push((true, items)),
            Err(_) => {
                self.info.errors_returned += 1;
                self.events.push((false, items));
            }
        }
    }

    /// Does the recovered state equal the acknowledged writes plus all-or-nothing of each failed one?
    fn final_state_ok(&self, got: &Model) -> bool {
        let maybes: Vec<usize> = self
            .events
            .iter()
            .enumerate()
            .filter(|(_, e)| !e.0 && !e.1.is_empty())
            .map(|(i, _)| i)
            .collect();
        let m = maybes.len().min(14);
        for mask in 0u32..(1u32 << m) {
            let mut model = Model::new();
            for (i, (definite, items)) in self.events.iter().enumerate() {
                let on = if *definite {
                    true
                } else {
                    match maybes.iter().position(|x| *x == i) {
                        Some(p) if p < m => mask & (1 << p) != 0,
                        _ => false,
                    }
                };
                if on {
                    for (k, v) in items {
                        match v {
                            Some(v) => {
                                model.insert(k.clone(), v.clone());
                            }
                            None => {
                                model.remove(k);
                            }
                        }
                    }
                }
            }
            if &model == got {
                return true;
            }
        }
        false
    }
}

/// Execute the workload with an optional armed fault.
pub fn run_point(p: &FaultPoint) -> Result<FaultInfo, FaultViolation> {
    let c0 = raindb::verif::counter(Counter::IterErrorSwallowed);
    let r = run_point_inner(p);
    let swallowed = raindb::verif::counter(Counter::IterErrorSwallowed) - c0;
    match r {
        Ok(mut i) => {
            i.swallowed = swallowed;
            Ok(i)
        }
        Err(what) => Err(FaultViolation {
            what: format!("{what} [iterator steps that swallowed a read error during this run: {swallowed}]"),
            swallowed,
        }),
    }
}

/// Installed for the directory-exactness runs: a get that has just released the database mutex
/// waits while the background thread is visibly busy (filesystem or hook activity within 150 us)
/// until a version has been installed or 4 ms have passed. The version the get pinned is then
/// usually no longer current when the get re-acquires the mutex. Affects the schedule only.
struct GetStaller;

impl GetStaller {
    fn install() -> Self {
        raindb::verif::set_point_callback(Some(Arc::new(|name: &'static str| {
            if name != "get.unlocked" {
                return;
            }
            let a0 = crate::guard::activity();
            let v0 = raindb::verif::counter(Counter::VersionInstalled);
            let t0 = std::time::Instant::now();
            let mut busy = false;
            while t0.elapsed() < Duration::from_micros(150) {
                if crate::guard::activity() != a0 {
                    busy = true;
                    break;
                }
                std::hint::spin_loop();
            }
            if busy {
                while t0.elapsed() < Duration::from_millis(4) && raindb::verif::counter(Counter::VersionInstalled) == v0 {
                    std::thread::yield_now();
                }
            }
        })));
        GetStaller
    }
}

impl Drop for GetStaller {
    fn drop(&mut self) {
        raindb::verif::set_point_callback(None);
    }
}

fn run_point_inner(p: &FaultPoint) -> Result<FaultInfo, String> {
    let case = &p.case;
    crate::engine::set_level_limits(crate::engine::level_code_for(&case.cfg));
    let _staller = if p.dircheck { Some(GetStaller::install()) } else { None };
    let mem = Arc::new(MemFs::new(false));
    let ffs = Arc::new(FaultFs::new(mem.clone()));
    let ctl = ffs.ctl.clone();
    let fsd: Arc<dyn FileSystem> = ffs.clone();
    let mut cfg = case.cfg;
    let mut db = Some(DB::open(options_dyn(fsd.clone(), &cfg)).map_err(|e| format!("fault-free initial open failed: {e:?}"))?);
    let base = ctl.calls.load(std::sync::atomic::Ordering::SeqCst);
    if let Some((name, n)) = &p.named {
        *ctl.write_filter.lock().unwrap() = Some((name.clone(), *n as i64, false));
        ctl.partial.store(p.partial, std::sync::atomic::Ordering::SeqCst);
    }
    match p.pos {
        Some(pos) => {
            ctl.arm(base + pos, p.sticky);
            ctl.partial.store(p.partial, std::sync::atomic::Ordering::SeqCst);
        }
        None => ctl.log_kinds.store(true, std::sync::atomic::Ordering::SeqCst),
    }
    let mut run = Run { case, events: vec![], counter: 0, info: FaultInfo::default() };
    let key = |s: Sel| case.universe[pick(s, case.universe.len())].clone();
    let mut after = 0u64;
    for op in &case.ops {
        let fired = ctl.fired.load(std::sync::atomic::Ordering::SeqCst);
        if fired {
            after += 1;
            if after > 8 {
                break;
            }
        }
        let Some(d) = db.as_ref() else { break };
        match op {
            Op::Put(s, v) => {
                run.counter += 1;
                let val = make_value(run.counter, *v);
                run.write(d, vec![(key(*s), Some(val))]);
            }
            Op::PutTail(s, r) => {
                let k = key(*s);
                let path = format!("db/wal/wal-{}.log", d.verif_state().db_wal_number);
                let size = mem.read_file(&path).map_or(0, |f| f.len() as u64);
                let len = tail_value_len(size, k.len(), *r).unwrap_or(40);
                run.counter += 1;
                let val = make_value(run.counter, Val { len, compressible: false });
                run.write(d, vec![(k, Some(val))]);
            }
            Op::Delete(s) => run.write(d, vec![(key(*s), None)]),
            Op::Batch(items) => {
                let mut staged = vec![];
                for (s, v) in items {
                    match v {
                        Some(v) => {
                            run.counter += 1;
                            staged.push((key(*s), Some(make_value(run.counter, *v))));
                        }
                        None => staged.push((key(*s), None)),
                    }
                }
                run.write(d, staged);
            }
            Op::Fill { start, n, val } => {
                let b0 = pick(*start, case.universe.len());
                for i in 0..(*n as usize) {
                    let k = case.universe[(b0 + i) % case.universe.len()].clone();
                    run.counter += 1;
                    let v = make_value(run.counter, *val);
                    run.write(d, vec![(k, Some(v))]);
                }
            }
            Op::Get(s) => {
                let k = key(*s);
                run.check_get(d, &k)?;
            }
            Op::GetAll => {
                for k in case.universe.iter() {
                    run.check_get(d, k)?;
                }
                run.check_scan(d)?;
            }
            Op::IterNew(_) => run.check_scan(d)?,
            Op::IterOp(s, _) => run.check_seeks(d, pick(*s, case.universe.len()))?,
            Op::Flush => d.compact_range(Some(RESERVED_LO)..Some(RESERVED_HI)),
            Op::Compact(lo, hi) => {
                let mut lo = lo.map(key);
                let mut hi = hi.map(key);
                if let (Some(a), Some(b)) = (&lo, &hi) {
                    if a > b {
                        std::mem::swap(&mut lo, &mut hi);
                    }
                }
                d.compact_range(lo.as_deref()..hi.as_deref());
            }
            Op::WaitIdle => {
                d.verif_wait_idle(Duration::from_secs(600));
            }
            Op::Reopen(c) => {
                db = None;
                cfg = *c;
                match DB::open(options_dyn(fsd.clone(), &cfg)) {
                    Ok(d2) => db = Some(d2),
                    Err(_) => {
                        run.info.errors_returned += 1;
                        if !ctl.fired.load(std::sync::atomic::Ordering::SeqCst) {
                            return Err("reopen failed although no fault had been injected yet".into());
                        }
                    }
                }
            }
            _ => {}
        }
    }
    if p.dircheck {
        // C11: a failed read must not leave anything pinned. Only meaningful while the database is
        // healthy (after a background error it deliberately stops deleting files).
        ctl.disarm();
        if let Some(d) = db.as_ref() {
            d.verif_wait_idle(Duration::from_secs(600));
            if d.verif_state().bad_state.is_none() {
                d.compact_range(Some(RESERVED_LO)..Some(RESERVED_HI));
                d.verif_wait_idle(Duration::from_secs(600));
                if d.verif_state().num_versions > 1 {
                    d.compact_range(None..None);
                    d.compact_range(Some(RESERVED_LO)..Some(RESERVED_HI));
                    d.verif_wait_idle(Duration::from_secs(600));
                }
                if d.verif_state().bad_state.is_none() {
                    crate::engine::dir_exact(d, &mem).map_err(|e| format!("after a failed read and quiescence: {e}"))?;
                }
            }
        }
        run.info.fired = ctl.fired_what.lock().unwrap().clone();
        drop(db);
        return Ok(run.info);
    }
    // reads after the fault: everything acknowledged must still be visible or reads must fail
    if let Some(d) = db.as_ref() {
        for k in case.universe.iter() {
            run.check_get(d, k)?;
        }
        run.check_scan(d)?;
        d.verif_wait_idle(Duration::from_secs(600));
    }
    run.info.api_calls_after_fault = after;
    run.info.fired = ctl.fired_what.lock().unwrap().clone();
    // the fault is gone; close, reopen, compare
    ctl.disarm();
    drop(db);
    let total = ctl.calls.load(std::sync::atomic::Ordering::SeqCst);
    run.info.calls = total - base;
    if p.pos.is_none() {
        let kinds = ctl.kinds.lock().unwrap().clone();
        run.info.kinds = kinds;
        ctl.log_kinds.store(false, std::sync::atomic::Ordering::SeqCst);
    }
    let d = DB::open(options_dyn(fsd.clone(), &cfg))
        .map_err(|e| {
            let files: Vec<String> = mem.file_names().into_iter().filter(|f| f.contains("MANIFEST") || f.ends_with("CURRENT")).map(|f| format!("{f}({}B)", mem.read_file(&f).map_or(0, |d| d.len()))).collect();
            format!("reopen after the fault was removed failed: {e:?} [failed call: {:?}; files: {files:?}; CURRENT -> {:?}]", run.info.fired, mem.read_file("db/CURRENT").map(|d| String::from_utf8_lossy(&d).to_string()))
        })?;
    let mut got = Model::new();
    {
        let mut it = d
            .new_iterator(ReadOptions::default())
            .map_err(|e| format!("new_iterator after reopen failed: {e:?}"))?;
        it.seek_to_first().map_err(|e| format!("seek_to_first after reopen failed: {e:?}"))?;
        while it.is_valid() {
            let (k, v) = it.current().unwrap();
            got.insert(k.clone(), v.clone());
            it.next();
        }
        if let Some(e) = it.take_error() {
            return Err(format!("scan after the fault-free reopen stopped with an error: {e:?}"));
        }
    }
    for k in case.universe.iter() {
        let g = match d.get(ReadOptions::default(), k) {
            Ok(v) => Some(v),
            Err(RainDBError::KeyNotFound) => None,
            Err(e) => return Err(format!("get({}) after the fault-free reopen failed: {e:?}", hex(k))),
        };
        if g.as_ref() != got.get(k) {
            return Err(format!("after reopen get({}) and the scan disagree", hex(k)));
        }
    }
    if !run.final_state_ok(&got) {
        let def = run.definite_model();
        let mut diffs = vec![];
        for k in case.universe.iter() {
            if def.get(k) != got.get(k) {
                diffs.push(format!(
                    "{}: reopened database has {:?}, acknowledged writes give {:?}",
                    hex(k),
                    got.get(k).map(|v| hex(v)),
                    def.get(k).map(|v| hex(v))
                ));
            }
        }
        diffs.truncate(4);
        return Err(format!(
            "after the fault was removed and the database reopened its contents are not (every write that returned Ok) + (all-or-nothing of each write that returned Err): {}",
            diffs.join("; ")
        ));
    }
    drop(d);
    Ok(run.info)
}

fn mix(a: u64, b: u64) -> u64 {
    let mut x = a ^ b.wrapping_mul(0x9E37_79B9_7F4A_7C15);
    x ^= x >> 32;
    x = x.wrapping_mul(0xD6E8_FEB8_6659_FD93);
    x ^= x >> 32;
    x
}

pub enum PointOutcome {
    Ok(FaultInfo),
    Violation(FaultViolation),
    Hung(String),
}

pub fn guarded_point(p: &FaultPoint) -> PointOutcome {
    let q = p.clone();
    match run_guarded("fault-case", move || run_point(&q)) {
        Guarded::Done(Ok(i)) => PointOutcome::Ok(i),
        Guarded::Done(Err(v)) => PointOutcome::Violation(v),
        Guarded::Panicked(m) => PointOutcome::Violation(FaultViolation { what: format!("a call panicked after the injected failure: {m}"), swallowed: 0 }),
        Guarded::Hung(m) => PointOutcome::Hung(m),
    }
}

pub fn replay_body(p: &FaultPoint, msg: &str) -> Value {
    json!({"property": "C08", "engine": "faultpoint", "point": p, "message": msg})
}

const KNOWN_SWALLOW: &str = "counter:iter_error_swallowed>0";

pub fn worker(ctx: &WorkerCtx) -> WorkerResult {
    let total = match ctx.tier {
        Tier::Quick => 48u64,
        Tier::Thorough => 1600,
    };
    let total = std::env::var("VERIF_CASES").ok().and_then(|s| s.parse().ok()).unwrap_or(total);
    let known = open_findings_for("C08");
    let res = RefCell::new(WorkerResult::default());
    let failed = RefCell::new(false);
    let found: RefCell<Option<(FaultPoint, String)>> = RefCell::new(None);
    let hung = RefCell::new(false);
    let tier = ctx.tier;
    let mut runner = TestRunner::new(Config {
        cases: ctx.share(total).max(1) as u32,
        rng_seed: RngSeed::Fixed(ctx.derived_seed(8)),
        failure_persistence: None,
        max_shrink_iters: 40,
        ..Config::default()
    });
    // a fifth of the workloads run with a large memtable and file size and small blocks: tables of many
    // blocks spread over several 2 KiB filter ranges (faults while such a table is built or read)
    let strategy = (case_strategy(&workload_params()), 0u8..10).prop_map(|(mut c, pick)| {
        if pick < 2 {
            c.cfg.memtable = 100_000;
            c.cfg.file = 1024 * 1024;
            c.cfg.block = if pick == 0 { 128 } else { 1024 };
            for op in c.ops.iter_mut() {
                if let Op::Reopen(cfg) = op {
                    cfg.memtable = 100_000;
                    cfg.file = 1024 * 1024;
                }
            }
        }
        c
    });
    let outcome = runner.run(&strategy, |case| {
        if *hung.borrow() {
            // every re-run of a hanging case costs the full quiet period: do not shrink hangs
            return Ok(());
        }
        let counting = !*failed.borrow();
        let ch = hash_json(&case);
        // fault-free run: count and classify the calls
        let base = FaultPoint { dircheck: false, case: case.clone(), pos: None, sticky: false, partial: false, named: None };
        let info = match guarded_point(&base) {
            PointOutcome::Ok(i) => i,
            PointOutcome::Violation(v) => {
                if counting {
                    res.borrow_mut().inconclusive.push(format!("fault-free run of a workload failed (other properties' business): {}", v.what));
                }
                return Ok(());
            }
            PointOutcome::Hung(m) => {
                if counting {
                    res.borrow_mut().inconclusive.push(format!("fault-free run hung: {m}"));
                }
                return Ok(());
            }
        };
        let n = info.kinds.len();
        let exhaustive = tier == Tier::Thorough || n <= 600;
        let mut positions: Vec<u64> = vec![];
        for (i, kind) in info.kinds.iter().enumerate() {
            let is_read = matches!(*kind, "read" | "read_from");
            if exhaustive || !is_read || mix(ch, i as u64) % 8 == 0 {
                positions.push(i as u64);
            }
        }
        if tier == Tier::Quick && positions.len() > 700 {
            let keep = positions.len() / 700 + 1;
            positions.retain(|i| mix(ch, 0x55 + *i) % keep as u64 == 0);
        }
        if counting {
            let mut r = res.borrow_mut();
            r.bump("workloads");
            if r.samples.len() < 2 {
                r.samples.push(json!({"workload": serde_json::to_value(&case).unwrap(), "filesystem_calls": n, "positions_tried": positions.len()}));
            }
        }
        for pos in positions {
            // modes: transient, sticky, and - for writes/appends - a failure that leaves the first half
            // of the buffer in the file (transient or sticky by the position's hash)
            let is_write = matches!(info.kinds.get(pos as usize), Some(&"write") | Some(&"append"));
            let mut modes = vec![(false, false), (true, false)];
            if is_write {
                modes.push((mix(ch, 0x77 + pos) % 2 == 0, true));
            }
            for (sticky, partial) in modes {
                let p = FaultPoint { dircheck: false, case: case.clone(), pos: Some(pos), sticky, partial, named: None };
                let out = guarded_point(&p);
                let mut r = res.borrow_mut();
                if counting {
                    r.evaluations += 1;
                }
                match out {
                    PointOutcome::Ok(i) => {
                        if counting {
                            if let Some(w) = &i.fired {
                                let kind = w.split(' ').next().unwrap_or("?").to_string();
                                *r.classes.entry(format!("failed_{kind}")).or_insert(0) += 1;
                                if i.api_calls_after_fault >= 1 {
                                    r.nontrivial_hashes.push(mix(ch, pos * 4 + sticky as u64 + 2 * partial as u64));
                                    if partial {
                                        r.bump("failed_write_left_half_of_its_buffer_in_the_file");
                                    }
                                }
                                if i.errors_returned > 0 {
                                    r.bump("runs_with_error_reported_to_caller");
                                }
                            } else {
                                r.bump("armed_call_not_reached");
                            }
                        }
                    }
                    PointOutcome::Violation(v) => {
                        if v.swallowed > 0 {
                            if let Some(k) = known.iter().find(|k| k.signature == KNOWN_SWALLOW) {
                                if counting {
                                    *r.excluded_known.entry(k.id.clone()).or_insert(0) += 1;
                                }
                                continue;
                            }
                        }
                        *failed.borrow_mut() = true;
                        *found.borrow_mut() = Some((p, v.what.clone()));
                        return Err(TestCaseError::fail(v.what));
                    }
                    PointOutcome::Hung(m) => {
                        *failed.borrow_mut() = true;
                        *hung.borrow_mut() = true;
                        let what = format!("a call did not return after the injected failure (it neither reported an error nor took effect): {m}");
                        *found.borrow_mut() = Some((p, what.clone()));
                        return Err(TestCaseError::fail(what));
                    }
                }
            }
        }
        // the n-th write to the manifest, by name (the manifest is written by the background thread, so
        // its calls have no stable position): failing cleanly and failing with half of the buffer written
        for n in 1..=10u32 {
            for partial in [false, true] {
                let p = FaultPoint { dircheck: false, case: case.clone(), pos: None, sticky: false, partial, named: Some(("MANIFEST".into(), n)) };
                let out = guarded_point(&p);
                let mut r = res.borrow_mut();
                if counting {
                    r.evaluations += 1;
                }
                match out {
                    PointOutcome::Ok(i) => {
                        if counting && i.fired.is_some() {
                            r.bump("failed_nth_manifest_write_by_name");
                            r.nontrivial_hashes.push(mix(ch, 0x9000 + n as u64 * 2 + partial as u64));
                        }
                    }
                    PointOutcome::Violation(v) => {
                        *failed.borrow_mut() = true;
                        *found.borrow_mut() = Some((p, v.what.clone()));
                        return Err(TestCaseError::fail(v.what));
                    }
                    PointOutcome::Hung(m) => {
                        *failed.borrow_mut() = true;
                        *hung.borrow_mut() = true;
                        let what = format!("a call did not return after the injected failure (it neither reported an error nor took effect): {m}");
                        *found.borrow_mut() = Some((p, what.clone()));
                        return Err(TestCaseError::fail(what));
                    }
                }
            }
        }
        Ok(())
    });
    let mut r = res.into_inner();
    match outcome {
        Ok(()) => {}
        Err(TestError::Fail(_, _)) => {
            if let Some((p, e)) = found.into_inner() {
                let is_hang = *hung.borrow();
                let p = if is_hang { p } else { minimise(p) };
                // refresh the message for the minimised point
                let e = if is_hang {
                    e
                } else {
                    match guarded_point(&p) {
                        PointOutcome::Violation(v) => v.what,
                        PointOutcome::Hung(m) => format!("a call did not return after the injected failure: {m}"),
                        PointOutcome::Ok(_) => e,
                    }
                };
                let path = write_replay("C08", ctx.seed, ctx.worker, 0, &replay_body(&p, &e));
                r.violations.push(ViolationRec { replay: path, message: e });
            }
        }
        Err(TestError::Abort(reason)) => r.inconclusive.push(format!("proptest aborted: {}", reason.message())),
    }
    r
}

fn fails(p: &FaultPoint) -> bool {
    for _ in 0..2 {
        match guarded_point(p) {
            PointOutcome::Ok(_) => {}
            _ => return true,
        }
    }
    false
}

/// Greedy reduction of the operation list, re-locating the fault position in a window.
fn minimise(mut p: FaultPoint) -> FaultPoint {
    let Some(pos0) = p.pos else { return p };
    let mut budget = 120;
    let mut i = p.case.ops.len();
    while i > 0 && budget > 0 {
        i -= 1;
        let mut cand = p.clone();
        cand.case.ops.remove(i);
        let cur = cand.pos.unwrap_or(pos0);
        let lo = cur.saturating_sub(30);
        let mut hit = None;
        for np in (lo..=cur).rev() {
            budget -= 1;
            cand.pos = Some(np);
            if fails(&cand) {
                hit = Some(np);
                break;
            }
            if budget <= 0 || cur - np > 12 {
                break;
            }
        }
        if let Some(np) = hit {
            cand.pos = Some(np);
            p = cand;
        }
    }
    p
}

pub fn replay(v: &Value) -> Result<(), String> {
    let p: FaultPoint = serde_json::from_value(v["point"].clone()).map_err(|e| e.to_string())?;
    for _ in 0..5 {
        match guarded_point(&p) {
            PointOutcome::Ok(_) => {}
            PointOutcome::Violation(v) => return Err(v.what),
            PointOutcome::Hung(m) => return Err(format!("a call did not return after the injected failure: {m}")),
        }
    }
    Ok(())
}

/// C09 part (iv): a sample of single-fault runs judged only for termination (hangs, panics on
/// database threads); what the calls return is C08's business.
pub fn worker_hang_only(ctx: &WorkerCtx, res: &RefCell<WorkerResult>) {
    if !res.borrow().violations.is_empty() {
        return;
    }
    let workloads = match ctx.tier {
        Tier::Quick => 16u64,
        Tier::Thorough => 400,
    };
    let per = match ctx.tier {
        Tier::Quick => 60usize,
        Tier::Thorough => 400,
    };
    let found: RefCell<Option<(FaultPoint, String)>> = RefCell::new(None);
    let mut runner = TestRunner::new(Config {
        cases: ctx.share(workloads).max(1) as u32,
        rng_seed: RngSeed::Fixed(ctx.derived_seed(94)),
        failure_persistence: None,
        max_shrink_iters: 0,
        ..Config::default()
    });
    let _ = runner.run(&case_strategy(&workload_params()), |case| {
        if found.borrow().is_some() {
            return Ok(());
        }
        let ch = hash_json(&case);
        let base = FaultPoint { dircheck: false, case: case.clone(), pos: None, sticky: false, partial: false, named: None };
        let info = match guarded_point(&base) {
            PointOutcome::Ok(i) => i,
            _ => return Ok(()),
        };
        let n = info.kinds.len();
        if n == 0 {
            return Ok(());
        }
        let step = (n / per).max(1);
        let mut pos = (mix(ch, 1) % step as u64) as usize;
        while pos < n {
            // prefer write-side calls: they drive the sticky error state
            let sticky = mix(ch, pos as u64) & 1 == 1;
            let p = FaultPoint { dircheck: false, case: case.clone(), pos: Some(pos as u64), sticky, partial: false, named: None };
            let bg0 = crate::guard::bg_panics();
            let out = guarded_point(&p);
            let mut r = res.borrow_mut();
            r.evaluations += 1;
            match out {
                PointOutcome::Hung(m) => {
                    *found.borrow_mut() = Some((p, format!("a call did not return after a single injected I/O failure: {m}")));
                    return Ok(());
                }
                PointOutcome::Violation(v) if v.what.contains("panicked") => {
                    *found.borrow_mut() = Some((p, v.what));
                    return Ok(());
                }
                _ => {
                    if crate::guard::bg_panics() > bg0 {
                        *found.borrow_mut() = Some((p, "a database thread panicked after an injected I/O failure".into()));
                        return Ok(());
                    }
                    r.bump("fault_runs_checked_for_termination");
                    r.nontrivial_hashes.push(mix(ch, 0x900 + pos as u64));
                }
            }
            pos += step;
        }
        Ok(())
    });
    if let Some((p, e)) = found.into_inner() {
        let mut body = replay_body(&p, &e);
        body["property"] = json!("C09");
        body["engine"] = json!("faultpoint-termination");
        let path = write_replay("C09", ctx.seed, ctx.worker, 94, &body);
        res.borrow_mut().violations.push(ViolationRec { replay: path, message: e });
    }
}

pub fn replay_termination(v: &Value) -> Result<(), String> {
    let p: FaultPoint = serde_json::from_value(v["point"].clone()).map_err(|e| e.to_string())?;
    for _ in 0..3 {
        match guarded_point(&p) {
            PointOutcome::Hung(m) => return Err(format!("a call did not return after the injected failure: {m}")),
            PointOutcome::Violation(v) if v.what.contains("panicked") => return Err(v.what),
            _ => {}
        }
    }
    Ok(())
}

/// C11 part 3: transient failures of read-side calls (open-for-read, read, read_from, len, size)
/// must not leave a version pinned: after the run, a flush and quiescence the directory is exact.
pub fn worker_dircheck(ctx: &WorkerCtx, res: &RefCell<WorkerResult>) {
    if !res.borrow().violations.is_empty() {
        return;
    }
    let workloads = match ctx.tier {
        Tier::Quick => 64u64,
        Tier::Thorough => 900,
    };
    let per = match ctx.tier {
        Tier::Quick => 120usize,
        Tier::Thorough => 600,
    };
    let found: RefCell<Option<(FaultPoint, String)>> = RefCell::new(None);
    let mut params = workload_params();
    params.w.get = 30;
    params.w.getall = 6;
    params.w.fill = 8;
    let mut runner = TestRunner::new(Config {
        cases: ctx.share(workloads).max(1) as u32,
        rng_seed: RngSeed::Fixed(ctx.derived_seed(113)),
        failure_persistence: None,
        max_shrink_iters: 0,
        ..Config::default()
    });
    let _ = runner.run(&case_strategy(&params), |case| {
        if found.borrow().is_some() {
            return Ok(());
        }
        // Shape the workload so that reads of table files overlap background flushes and
        // compactions: small memtable, and a get of another key right after every write (the
        // version that get pinned is then often superseded while the get is still reading).
        let mut case = case;
        let h0 = hash_json(&case);
        case.cfg.memtable = if h0 & 1 == 0 { 512 } else { 700 };
        let mut ops = Vec::with_capacity(case.ops.len() * 2);
        for (i, op) in case.ops.iter().enumerate() {
            ops.push(op.clone());
            if matches!(op, Op::Put(..) | Op::Delete(..) | Op::Batch(..) | Op::Fill { .. }) {
                ops.push(Op::Get(mix(h0, i as u64) as u16));
            }
        }
        case.ops = ops;
        let ch = hash_json(&case);
        let base = FaultPoint { dircheck: false, case: case.clone(), pos: None, sticky: false, partial: false, named: None };
        let info = match guarded_point(&base) {
            PointOutcome::Ok(i) => i,
            _ => return Ok(()),
        };
        let reads: Vec<usize> = info
            .kinds
            .iter()
            .enumerate()
            .filter(|(_, k)| matches!(**k, "read" | "read_from" | "open" | "len" | "size"))
            .map(|(i, _)| i)
            .collect();
        if reads.is_empty() {
            return Ok(());
        }
        let step = (reads.len() / per).max(1);
        let mut i = (mix(ch, 3) % step as u64) as usize;
        while i < reads.len() {
            let p = FaultPoint { dircheck: true, case: case.clone(), pos: Some(reads[i] as u64), sticky: false, partial: false, named: None };
            let out = guarded_point(&p);
            let mut r = res.borrow_mut();
            r.evaluations += 1;
            match out {
                PointOutcome::Violation(v) if v.what.contains("directory differs") => {
                    *found.borrow_mut() = Some((p, v.what));
                    return Ok(());
                }
                PointOutcome::Ok(info) => {
                    if info.fired.is_some() {
                        r.bump("read_side_fault_then_directory_exact");
                        r.nontrivial_hashes.push(mix(ch, 0xC11 + reads[i] as u64));
                    }
                }
                _ => {}
            }
            i += step;
        }
        Ok(())
    });
    if let Some((p, e)) = found.into_inner() {
        let mut body = replay_body(&p, &e);
        body["property"] = json!("C11");
        let path = write_replay("C11", ctx.seed, ctx.worker, 113, &body);
        res.borrow_mut().violations.push(ViolationRec { replay: path, message: e });
    }
}
