//! C01, C03, C04, C07, C10, C11: generated single-client histories against a model.

use crate::case::*;
use crate::engine::{Failure, Interp, Oracles, Stats};
use crate::gen::{case_strategy, GenParams};
use crate::guard::{run_guarded, Guarded};
use crate::runner::*;
use proptest::test_runner::{Config, RngSeed, TestCaseError, TestError, TestRunner};
use serde_json::{json, Value};
use std::cell::RefCell;
use std::path::Path;

pub struct HistorySpec {
    pub id: &'static str,
    pub oracles: Oracles,
    pub params: GenParams,
    pub quick_cases: u64,
    pub thorough_cases: u64,
    pub thorough_max_ops: usize,
    pub rule: &'static str,
    /// C09: a call that does not return, or a panic on a database thread, is the violation
    pub termination: bool,
}

pub fn spec(id: &str) -> Option<HistorySpec> {
    let base = GenParams::base();
    match id {
        "C01" => Some(HistorySpec {
            id: "C01",
            oracles: Oracles { latest: true, ..Default::default() },
            params: base,
            quick_cases: 24_000,
            thorough_cases: 400_000,
            thorough_max_ops: 300,
            termination: false,
            rule: "proptest-generated histories (put/delete/batch/get/flush/compact_range/fill/hammer/reopen with re-drawn config; structured sub-generators for tombstone ladders, L0 piles, disjoint flushes, version straddles) executed against raindb on MemFs and a BTreeMap model; every get at the latest state must equal the model. Non-trivial = the case read a key whose newest version and an older version were written in different memtable generations (so they live in different places), or read after a reopen with a changed config; distinct = distinct hash of the serialised case",
        }),
        "C03" => {
            let mut p = base;
            p.w.snap = 8;
            p.w.release = 3;
            p.w.iter_new = 4;
            p.w.iter_op = 14;
            p.w.iter_drop = 2;
            p.w.reopen = 1;
            Some(HistorySpec {
                id: "C03",
                oracles: Oracles { snapshot: true, cursor: true, ..Default::default() },
                params: p,
                quick_cases: 10_000,
                thorough_cases: 200_000,
                thorough_max_ops: 300,
                termination: false,
            rule: "generated histories with up to 4 live snapshots and 3 live iterators outliving later writes, flushes, compactions and file deletions; after every flush/compaction/fill/wait and before release, get of every universe key and a full scan at every snapshot must equal the map frozen at snapshot time (get and scan agree), and iterators created earlier are stepped as cursors over their frozen map. A second, concurrent campaign (C06's engine): 1-3 writers apply batches to their key groups (values 16-316 B on 512 B-100 kB memtables, with flushes and compact_range) while 1-2 readers repeatedly take a snapshot, an iterator at it and an implicit iterator, read every key (gets at the snapshot, one pass of the implicit iterator), wait 2 ms, and read everything again (gets, a pass of the snapshot iterator, a second pass of the implicit iterator); generated directives hold a writer at write.before_wal / after_wal / mid_memtable / after_memtable for 15-90 ms meanwhile. The two rounds of gets must be identical, the snapshot iterator must agree with the gets, and the implicit iterator must repeat itself. Non-trivial = a snapshot read after a key changed AND a flush/compaction ran since the snapshot (concurrent part: the latest state changed between the two rounds, or the snapshot was taken while a writer was held inside apply); distinct by case hash",
            })
        }
        "C04" => {
            let mut p = base;
            p.w.snap = 3;
            p.w.release = 1;
            p.w.iter_new = 6;
            p.w.iter_op = 60;
            p.w.iter_drop = 2;
            p.w.reopen = 1;
            p.w.get = 3;
            p.max_ops = 160;
            Some(HistorySpec {
                id: "C04",
                oracles: Oracles { cursor: true, ..Default::default() },
                params: p,
                quick_cases: 15_000,
                thorough_cases: 300_000,
                thorough_max_ops: 400,
                termination: false,
            rule: "generated histories building multi-level LSM shapes, interleaved with cursor programs (seek_to_first/last, seek to present/absent/before-first/after-last keys, next, prev, reversals weighted up) on up to 3 iterators; after every cursor op is_valid and current (and the return value of next/prev) must equal a cursor over the sorted visible map. Non-trivial = at least one direction reversal while some key has versions in different memtable generations and >=2 table files exist; distinct by case hash",
            })
        }
        "C07" => {
            let mut p = base;
            p.w.snap = 5;
            p.w.release = 2;
            p.w.flush = 8;
            p.w.compact = 8;
            p.w.hammer = 2;
            p.w.wait_idle = 4;
            p.w.reopen = 1;
            Some(HistorySpec {
                id: "C07",
                oracles: Oracles { metamorphic: true, ..Default::default() },
                params: p,
                quick_cases: 8000,
                thorough_cases: 200_000,
                thorough_max_ops: 300,
                termination: false,
            rule: "metamorphic: immediately before every flush / compact_range / wait-for-background / >100 repeated gets a dump (scan at latest and at each live snapshot + point gets of the universe) is taken, and again after the call and after background work quiesced; the dumps must be identical and equal to the model. Non-trivial = the file set changed between the dumps and some key had shadowed versions; distinct by case hash",
            })
        }
        "C10" => {
            let mut p = base;
            p.w.flush = 8;
            p.w.compact = 6;
            p.w.reopen = 5;
            p.w.wait_idle = 4;
            // live snapshots make compactions keep older versions: the last stored entry of an output
            // is then an older version of its last user key, which the recorded range must cover
            p.w.snap = 4;
            p.w.release = 1;
            Some(HistorySpec {
                id: "C10",
                oracles: Oracles { layout: true, ..Default::default() },
                params: p,
                quick_cases: 20_000,
                thorough_cases: 300_000,
                thorough_max_ops: 300,
                termination: false,
            rule: "at every quiescent moment (after flush/compact_range/wait and after every reopen) the SSTables and NumFilesAtLevel descriptors must agree with the structural layout, no file number twice, smallest<=largest, levels>=1 ordered and pairwise disjoint, and each file's recorded bounds must equal its first and last stored entry (file opened through the table reader); up to 4 live snapshots make compactions retain older versions. Non-trivial = a level>=1 with >=2 files was observed, or a reopen wrote a new manifest while tables existed; distinct by case hash",
            })
        }
        "C11" => {
            let mut p = base;
            p.w.snap = 4;
            p.w.release = 2;
            p.w.iter_new = 4;
            p.w.iter_op = 6;
            p.w.iter_drop = 2;
            p.w.hammer = 3;
            p.w.reopen = 4;
            p.w.compact = 6;
            Some(HistorySpec {
                id: "C11",
                oracles: Oracles { dirlist: true, cursor: true, ..Default::default() },
                params: p,
                quick_cases: 6000,
                thorough_cases: 40_000,
                thorough_max_ops: 300,
                termination: false,
            rule: "generated histories with iterators/snapshots pinning old versions across compactions; any read failing on a missing file is a violation; before every close, after every reopen and at the end everything is released, one memtable flush gives the database its reclamation opportunity, background work quiesces and the directory listing must be exactly CURRENT, the current manifest, the active WAL and the tables of the current version. Second part (crash images, C02's engine): every journal prefix of generated write workloads is recovered; after recovery and quiescence the directory must again be exact (orphan tables, temp files and superseded manifests/WALs left by the crash are reclaimed), and if a recovery fails but succeeds once the WAL/table files removed before the crash are put back, a file that crash recovery still needed had been deleted. The crash part checks the directory right after open + quiescence, before anything is read (leftovers of the crash are reclaimed by the open itself), and again after the reads and one flush. Third part: transient failures of read-side filesystem calls (open-for-read, read, read_from, len, size) at sampled positions of generated workloads shaped so that reads overlap background work (512/700-byte memtable, a get of another key after every write, and a get that has just released the database mutex waits while the background thread is busy until a version has been installed or 4 ms have passed, so that the version it pinned is usually no longer current when it fails); afterwards, while the database is healthy, a flush and quiescence must leave the directory exact (a failed read must not leave a version pinned; if a version is still linked after everything was released a full compaction makes its files obsolete first). Non-trivial = a version was still pinned when the check started, or a trivial move happened in the case (crash part: crash point strictly inside an API call or background work; fault part: the armed read failed); distinct by case hash / (workload hash, position)",
            })
        }
        "C09" => {
            let mut p = base;
            p.w.snap = 3;
            p.w.release = 1;
            p.w.iter_new = 3;
            p.w.iter_op = 8;
            p.w.iter_drop = 1;
            p.w.descriptor = 4;
            p.w.fill = 10;
            p.w.hammer = 2;
            p.stats_descriptor = true;
            Some(HistorySpec {
                id: "C09",
                oracles: Oracles { allow_stats: true, ..Default::default() },
                params: p,
                quick_cases: 8000,
                thorough_cases: 150_000,
                thorough_max_ops: 300,
                termination: true,
                rule: "part (i): every operation of the history engine including all three descriptors under every config; part (ii)/(iii): 1-4 threads of 20-70 generated ops each (puts of 58-308 B, batches, deletes, gets, scans, flushes, compact_range(all)) on a 512/700 byte memtable with 400 byte files so that the memtable-full wait, the L0 slowdown and the L0 stop are reached, the database being dropped as soon as the threads finish, i.e. while background work is pending; a second campaign of the same shape adds 1-3 directives that hold the background thread for 10-60 ms at compaction.step / manifest.before_append / flush.before_build / gc.before_delete (so that memtable rotations and flushes happen inside an in-flight compaction), a fifth of its cases being close races (the background thread is held at worker.tasks_drained until the clients are done and lingers 2-40 ms so that it resumes while the database is being closed with a freshly scheduled task unprocessed) a sixth being level-0 piles (a preloaded WAL of 30-120 puts is replayed through a 512-byte memtable into a dozen or more level-0 files and the background thread is held inside the first compaction while the clients write, so that writers meet the level-0 stop trigger) and a sixth being structured: one client builds a layout from small flushes over key groups (files pushed down to levels 1-2 with gaps between them) and compacts everything while a second, delayed client fills the memtable and the background thread is held inside that compaction; part (iv): a sample of single-fault runs (C08's engine) judged for termination only. A call is declared non-returning only if neither the filesystem nor any hook point moved for 20 s (2 s once a database thread is known to have panicked); any panic on a raindb-* thread of an open database or in a public call is a violation. Non-trivial = the case reached a memtable-full wait, the L0 slowdown or stop trigger, or the Stats descriptor (part iv: the armed run completed); distinct by case hash",
            })
        }
        _ => None,
    }
}

/// Oracles used by the fuzz_history target: chosen by VERIF_FUZZ_ORACLE (c01 default, c03, c04, c10).
pub fn fuzz_oracles() -> Oracles {
    match std::env::var("VERIF_FUZZ_ORACLE").unwrap_or_default().as_str() {
        "c03" => Oracles { snapshot: true, cursor: true, ..Default::default() },
        "c04" => Oracles { cursor: true, ..Default::default() },
        "c10" => Oracles { layout: true, ..Default::default() },
        _ => Oracles { latest: true, ..Default::default() },
    }
}

pub enum CaseOutcome {
    Pass(Stats),
    Fail(Failure, Stats),
    Hung(String),
}

/// Execute one case on a guarded thread.
pub fn exec_case(case: &Case, o: Oracles) -> CaseOutcome {
    let c = case.clone();
    let bg0 = crate::guard::bg_panics();
    let p0 = crate::guard::panic_count();
    let g = run_guarded("case", move || {
        let mut it = Interp::new(&c, o);
        let r = it.run();
        let stats = it.stats.clone();
        drop(it);
        (r, stats)
    });
    if let Guarded::Done(_) = &g {
        if crate::guard::bg_panics() > bg0 {
            let ps = crate::guard::panics_since(p0);
            return CaseOutcome::Fail(
                Failure {
                    step: usize::MAX,
                    what: format!(
                        "a database thread panicked: {}",
                        ps.iter().map(|p| format!("{} at {}: {}", p.thread, p.location, p.message)).collect::<Vec<_>>().join(" | ")
                    ),
                    signature: Some("bg-panic".into()),
                },
                Stats::default(),
            );
        }
    }
    match g {
        Guarded::Done((Ok(()), s)) => CaseOutcome::Pass(s),
        Guarded::Done((Err(f), s)) => CaseOutcome::Fail(f, s),
        Guarded::Panicked(m) => CaseOutcome::Fail(
            Failure {
                step: usize::MAX,
                what: format!("a call panicked: {m}"),
                signature: Some("panic".into()),
            },
            Stats::default(),
        ),
        Guarded::Hung(m) => CaseOutcome::Hung(m),
    }
}

fn sample_of(case: &Case) -> Value {
    let mut v = serde_json::to_value(case).unwrap();
    // keep samples readable: show keys as hex and cap the op list
    if let Some(u) = v.get_mut("universe") {
        *u = json!(case.universe.iter().map(|k| hex(k)).collect::<Vec<_>>());
    }
    if let Some(ops) = v.get_mut("ops").and_then(|o| o.as_array_mut()) {
        let n = ops.len();
        ops.truncate(40);
        if n > 40 {
            ops.push(json!(format!("... {} more ops", n - 40)));
        }
    }
    v
}

pub fn replay_body(id: &str, o: &Oracles, case: &Case, msg: &str) -> Value {
    json!({"property": id, "engine": "history", "oracles": o, "case": case, "message": msg})
}

/// The campaign on the in-memory filesystem, then (C01, C10, C11) a smaller one on raindb's own
/// disk-backed filesystem: real files, real directory listings, renames and unlinks.
pub fn worker(ctx: &WorkerCtx) -> WorkerResult {
    let mut r = worker_on(ctx, false);
    if r.violations.is_empty() && matches!(ctx.id.as_str(), "C01" | "C10" | "C11") {
        let d = worker_on(ctx, true);
        r.merge(d);
    }
    r
}

fn worker_on(ctx: &WorkerCtx, disk: bool) -> WorkerResult {
    let mut sp = spec(&ctx.id).expect("history spec");
    sp.oracles.disk = disk;
    let total = match ctx.tier {
        Tier::Quick => sp.quick_cases,
        Tier::Thorough => {
            sp.params.max_ops = sp.thorough_max_ops;
            sp.params.max_chunks = 24;
            sp.thorough_cases
        }
    };
    let total = std::env::var("VERIF_CASES").ok().and_then(|s| s.parse().ok()).unwrap_or(total);
    let total = if disk { (total / 24).max(16) } else { total };
    let cases = ctx.share(total);
    let known = open_findings_for(sp.id);
    let res = RefCell::new(WorkerResult::default());
    let failed = RefCell::new(false);
    let hangs = RefCell::new(0u32);
    let mut runner = TestRunner::new(Config {
        cases: cases as u32,
        rng_seed: RngSeed::Fixed(ctx.derived_seed(if disk { 977 } else { 0 })),
        failure_persistence: None,
        max_shrink_iters: if sp.termination { 150 } else if disk { 400 } else { 3000 },
        max_global_rejects: 10,
        ..Config::default()
    });
    let oracles = sp.oracles;
    let id = sp.id;
    let termination = sp.termination;
    let first_failure: RefCell<Option<Case>> = RefCell::new(None);
    let outcome = runner.run(&case_strategy(&sp.params), |case| {
        if *hangs.borrow() >= 3 {
            return Ok(());
        }
        let out = exec_case(&case, oracles);
        let counting = !*failed.borrow();
        let mut r = res.borrow_mut();
        match out {
            CaseOutcome::Pass(mut stats) => {
                if termination {
                    stats.nontrivial = ["memtable_wait", "l0_slowdown", "l0_stop", "stats_descriptor"]
                        .iter()
                        .any(|k| stats.has(k));
                }
                if counting {
                    r.evaluations += 1;
                    r.add_classes(&stats.classes);
                    if disk {
                        r.bump("cases_on_the_disk_backed_filesystem");
                    }
                    if stats.nontrivial {
                        r.nontrivial_hashes.push(hash_json(&case));
                        if r.samples.len() < 3 {
                            r.samples.push(sample_of(&case));
                        }
                    }
                }
                Ok(())
            }
            CaseOutcome::Fail(f, _stats) => {
                if counting {
                    r.evaluations += 1;
                }
                if let Some(sig) = &f.signature {
                    if (sig == "bg-panic" || sig == "panic") && !termination && f.step == usize::MAX {
                        // the death of a database thread is C09's property
                        if counting {
                            r.inconclusive.push(format!("outside this property (C09): {}", f.what));
                        }
                        return Ok(());
                    }
                    if let Some(k) = known.iter().find(|k| &k.signature == sig) {
                        if counting {
                            *r.excluded_known.entry(k.id.clone()).or_insert(0) += 1;
                        }
                        return Ok(());
                    }
                    if sig == "write-error" && id != "C01" {
                        // a failing write is C01's business; the case cannot be judged here
                        if counting {
                            r.inconclusive.push(format!("write error outside C01: {}", f.what));
                        }
                        return Ok(());
                    }
                }
                *failed.borrow_mut() = true;
                Err(TestCaseError::fail(format!("step {}: {}", f.step, f.what)))
            }
            CaseOutcome::Hung(m) if termination => {
                if counting {
                    r.evaluations += 1;
                    *first_failure.borrow_mut() = Some(case.clone());
                }
                *failed.borrow_mut() = true;
                crate::guard::QUIET_OVERRIDE.store(3, std::sync::atomic::Ordering::Relaxed);
                Err(TestCaseError::fail(format!("a call did not return: {m}")))
            }
            CaseOutcome::Hung(m) => {
                *hangs.borrow_mut() += 1;
                if counting {
                    r.evaluations += 1;
                    // kept for diagnosis (as a C09 termination case); not a verdict of this check
                    let body = replay_body("C09", &Oracles { allow_stats: true, ..Default::default() }, &case, &format!("a call did not return: {m}"));
                    let path = write_replay(&format!("INC-{id}"), ctx.seed, ctx.worker, *hangs.borrow() as usize, &body);
                    r.inconclusive.push(format!(
                        "a call did not return ({m}); termination is C09's property, case saved as {path}"
                    ));
                }
                Ok(())
            }
        }
    });
    let mut r = res.into_inner();
    match outcome {
        Ok(()) => {}
        Err(TestError::Fail(reason, case)) => {
            crate::guard::QUIET_OVERRIDE.store(0, std::sync::atomic::Ordering::Relaxed);
            let mut case = case;
            let mut msg = reason.message().to_string();
            if termination && msg.starts_with("a call did not return") {
                // confirm the shrunk case with the full quiet period, else keep the original
                match exec_case(&case, oracles) {
                    CaseOutcome::Hung(m) => msg = format!("a call did not return: {m}"),
                    _ => {
                        if let Some(c) = first_failure.borrow().clone() {
                            case = c;
                        }
                    }
                }
            }
            let body = replay_body(id, &oracles, &case, &msg);
            let path = write_replay(id, ctx.seed, ctx.worker, 0, &body);
            r.violations.push(ViolationRec { replay: path, message: msg });
        }
        Err(TestError::Abort(reason)) => {
            r.inconclusive.push(format!("proptest aborted: {}", reason.message()));
        }
    }
    r
}

/// Replay a saved case 5 times (3 natural + 2 with background work synchronised after every op).
pub fn replay(v: &Value) -> Result<(), String> {
    let case: Case = serde_json::from_value(v["case"].clone()).map_err(|e| e.to_string())?;
    let mut o: Oracles = serde_json::from_value(v["oracles"].clone()).map_err(|e| e.to_string())?;
    for round in 0..5 {
        o.sync_bg = round >= 3;
        match exec_case(&case, o) {
            CaseOutcome::Pass(_) => {}
            CaseOutcome::Fail(f, _) => return Err(format!("step {}: {}", f.step, f.what)),
            CaseOutcome::Hung(m) => return Err(format!("hang: {m}")),
        }
    }
    Ok(())
}

pub fn regress_file(path: &Path) -> Result<(), String> {
    let s = std::fs::read_to_string(path).map_err(|e| e.to_string())?;
    let v: Value = serde_json::from_str(&s).map_err(|e| e.to_string())?;
    crate::checks::replay_value(&v)
}
