//! C12: log files return exactly the records appended, for every size and reopen point.

use crate::case::hash_json;
use crate::guard::{run_guarded, Guarded};
use crate::memfs::MemFs;
use crate::runner::*;
use proptest::prelude::*;
use proptest::test_runner::{Config, RngSeed, TestCaseError, TestError, TestRunner};
use raindb::fs::FileSystem;
use raindb::verif::{VLogReader, VLogWriter};
use serde::{Deserialize, Serialize};
use serde_json::{json, Value};
use std::cell::RefCell;
use std::sync::Arc;

const BLOCK: usize = 32768;
const HEADER: usize = 7;

#[derive(Clone, Debug, Serialize, Deserialize, PartialEq, Eq, Hash)]
pub enum SegEnd {
    /// writer dropped after its last record was written completely
    Close,
    /// the writer died after emitting fragment `j` (0-based, monotone selector) of its last record
    StopAfterFragment(u16),
}

#[derive(Clone, Debug, Serialize, Deserialize, PartialEq, Eq, Hash)]
pub struct Segment {
    pub lens: Vec<u32>,
    pub end: SegEnd,
}

#[derive(Clone, Debug, Serialize, Deserialize, PartialEq, Eq, Hash)]
pub struct LogCase {
    pub segments: Vec<Segment>,
    /// final truncation of the file: selector over 0..=len (None: no truncation)
    pub truncate: Option<u32>,
}

/// Independent model of the writer's layout: returns for a record of length `len` starting at file
/// offset `off` the list of (fragment start, fragment end) offsets including leading trailer padding.
pub fn layout(mut off: usize, len: usize) -> Vec<(usize, usize)> {
    let mut out = vec![];
    let mut left = len;
    loop {
        let start = off;
        let avail = BLOCK - off % BLOCK;
        if avail < HEADER {
            off += avail;
        }
        let space = BLOCK - off % BLOCK - HEADER;
        let chunk = left.min(space);
        off += HEADER + chunk;
        left -= chunk;
        out.push((start, off));
        if left == 0 {
            break;
        }
    }
    out
}

fn record_bytes(n: u64, len: usize) -> Vec<u8> {
    let mut out = Vec::with_capacity(len);
    let tag = n.to_be_bytes();
    let mut i = 0usize;
    while out.len() < len {
        if i < 8 {
            out.push(tag[i]);
        } else {
            out.push(((n as usize).wrapping_mul(31).wrapping_add(i * 7)) as u8);
        }
        i += 1;
    }
    out
}

pub struct LogStats {
    pub nontrivial: bool,
    pub classes: Vec<&'static str>,
}

/// Execute a case: write through LogWriter, cut as specified, read back through LogReader.
pub fn run_log_case(case: &LogCase) -> Result<LogStats, String> {
    let fs = Arc::new(MemFs::new(false));
    let fsd: Arc<dyn FileSystem> = fs.clone();
    let path = "log/test.log";
    // expected complete records with their end offsets
    let mut expected: Vec<(usize, Vec<u8>)> = vec![];
    let mut off = 0usize;
    let mut n = 0u64;
    let mut classes: Vec<&'static str> = vec![];
    let mut nontrivial = false;
    for (si, seg) in case.segments.iter().enumerate() {
        if seg.lens.is_empty() {
            continue;
        }
        let mut w = VLogWriter::new(fsd.clone(), path, si > 0 || off > 0)
            .map_err(|e| format!("LogWriter::new failed: {e}"))?;
        if off % BLOCK != 0 && si > 0 {
            classes.push("writer_reopened_inside_a_block");
            nontrivial = true;
        }
        let mut last_frags: Vec<(usize, usize)> = vec![];
        for len in &seg.lens {
            n += 1;
            let data = record_bytes(n, *len as usize);
            let frags = layout(off, data.len());
            w.append(&data).map_err(|e| format!("append of {len} bytes failed: {e}"))?;
            let end = frags.last().unwrap().1;
            let real_len = fs.read_file(path).map(|f| f.len()).unwrap_or(0);
            if real_len != end {
                return Err(format!(
                    "after appending a {len}-byte record at offset {off} the file is {real_len} bytes long; the format (7-byte headers, 32768-byte blocks) requires {end}"
                ));
            }
            if frags.len() >= 2 {
                classes.push("record_spans_blocks");
                nontrivial = true;
            }
            let near = |o: usize| o % BLOCK < 8 || BLOCK - o % BLOCK <= 8;
            if near(off) || near(end) {
                classes.push("record_starts_or_ends_near_block_boundary");
                nontrivial = true;
            }
            expected.push((end, data));
            last_frags = frags;
            off = end;
        }
        drop(w);
        if let SegEnd::StopAfterFragment(sel) = &seg.end {
            if last_frags.len() >= 2 {
                // keep fragments 0..=j with j < last index: the record is incomplete
                let j = (*sel as usize * (last_frags.len() - 1)) >> 16;
                let cut = last_frags[j].1;
                let mut f = fs.read_file(path).unwrap();
                f.truncate(cut);
                fs.write_file_raw(path, f);
                expected.pop();
                off = cut;
                classes.push("writer_stopped_between_fragments");
                nontrivial = true;
            }
        }
    }
    if off == 0 && expected.is_empty() {
        // nothing was written; create the file so that the reader can open it
        let _ = VLogWriter::new(fsd.clone(), path, false);
    }
    if let Some(sel) = case.truncate {
        let t = ((sel as u64 * (off as u64 + 1)) >> 32) as usize;
        let mut f = fs.read_file(path).unwrap_or_default();
        f.truncate(t);
        fs.write_file_raw(path, f);
        expected.retain(|(end, _)| *end <= t);
        if t % BLOCK != 0 {
            classes.push("file_cut_inside_a_block");
            nontrivial = true;
        }
    }
    let mut r = VLogReader::new(fsd.clone(), path).map_err(|e| format!("LogReader::new failed: {e}"))?;
    for (i, (_, want)) in expected.iter().enumerate() {
        match r.read_record() {
            Ok(Some(got)) => {
                if &got != want {
                    let wl = want.len();
                    let gl = got.len();
                    let tag = if gl >= 8 { u64::from_be_bytes(got[..8].try_into().unwrap()) } else { 0 };
                    return Err(format!(
                        "record #{i}: read {gl} bytes (leading tag {tag}) but record #{i} was appended with {wl} bytes"
                    ));
                }
            }
            Ok(None) => return Err(format!("end of log reported before record #{i} of {} complete records", expected.len())),
            Err(e) => return Err(format!("error reading record #{i}: {e}")),
        }
    }
    match r.read_record() {
        Ok(None) => {}
        Ok(Some(got)) => {
            return Err(format!(
                "after the {} complete records the reader returned a {}-byte record that was never appended in that form",
                expected.len(),
                got.len()
            ))
        }
        Err(e) => return Err(format!("error instead of end-of-log after {} records: {e}", expected.len())),
    }
    // end of log is stable
    match r.read_record() {
        Ok(None) => {}
        other => return Err(format!("second read at end of log returned {:?}", other.map(|o| o.map(|v| v.len())))),
    }
    Ok(LogStats { nontrivial, classes })
}

fn len_strategy() -> impl Strategy<Value = u32> {
    let b = BLOCK as u32;
    let h = HEADER as u32;
    prop_oneof![
        6 => 0u32..3,
        6 => 4u32..11,
        20 => 0u32..200,
        6 => (b - h - 9)..(b - h + 10),
        6 => (b - 9)..(b + 10),
        4 => (2 * b - 2 * h - 9)..(2 * b - 2 * h + 10),
        4 => (2 * b - 9)..(2 * b + 10),
        2 => Just(100_000u32),
        6 => 200u32..40_000,
    ]
}

fn case_strategy() -> impl Strategy<Value = LogCase> {
    let seg = (
        prop::collection::vec(len_strategy(), 0..6),
        prop_oneof![3 => Just(SegEnd::Close), 2 => any::<u16>().prop_map(SegEnd::StopAfterFragment)],
    )
        .prop_map(|(lens, end)| Segment { lens, end });
    (
        prop::collection::vec(seg, 1..5),
        prop::option::weighted(0.4, any::<u32>()),
    )
        .prop_map(|(segments, truncate)| LogCase { segments, truncate })
}

/// Exhaustive family around the block-boundary arithmetic: filler record to reach block offset
/// `o` (in block 0 or block 1), record of length `l`, sentinel.
pub fn boundary_family() -> Vec<LogCase> {
    let mut out = vec![];
    let mut offsets: Vec<usize> = vec![0];
    offsets.extend(7..=27);
    offsets.extend((BLOCK - 20)..BLOCK);
    for o in offsets {
        for second_block in [false, true] {
            let mut lens: Vec<u32> = vec![];
            if second_block {
                // first fragment fills block 0, second ends at offset o of block 1 (o >= 7 needed)
                if o < HEADER {
                    continue;
                }
                lens.push((BLOCK - HEADER + o - HEADER) as u32);
            } else if o >= HEADER {
                lens.push((o - HEADER) as u32);
            }
            let room = BLOCK as i64 - o as i64;
            let mut ls: Vec<i64> = (0..=40).collect();
            ls.extend((room - HEADER as i64 - 20)..=(room - HEADER as i64 + 20));
            ls.extend((room + BLOCK as i64 - 2 * HEADER as i64 - 3)..=(room + BLOCK as i64 - 2 * HEADER as i64 + 3));
            ls.sort();
            ls.dedup();
            for l in ls {
                if l < 0 {
                    continue;
                }
                let mut c = lens.clone();
                c.push(l as u32);
                c.push(5); // sentinel
                out.push(LogCase { segments: vec![Segment { lens: c, end: SegEnd::Close }], truncate: None });
            }
        }
    }
    out
}

pub fn replay_body(case: &LogCase, msg: &str) -> Value {
    json!({"property": "C12", "engine": "logfmt", "case": case, "message": msg})
}

fn guarded(case: &LogCase) -> Result<LogStats, String> {
    let c = case.clone();
    match run_guarded("log-case", move || run_log_case(&c)) {
        Guarded::Done(r) => r,
        Guarded::Panicked(m) => Err(format!("panic: {m}")),
        Guarded::Hung(m) => Err(format!("reader or writer did not return: {m}")),
    }
}

pub fn worker(ctx: &WorkerCtx) -> WorkerResult {
    let (cases, fam_share) = match ctx.tier {
        Tier::Quick => (100_000u64, 2usize),
        Tier::Thorough => (400_000u64, 1usize),
    };
    let cases = std::env::var("VERIF_CASES").ok().and_then(|s| s.parse().ok()).unwrap_or(cases);
    let mut r = WorkerResult::default();
    // 1. enumerated boundary family (quick: every 8th member, rotated by seed; thorough: all)
    let fam = boundary_family();
    let mut fam_done = 0u64;
    for (i, c) in fam.iter().enumerate() {
        if i % ctx.workers != ctx.worker {
            continue;
        }
        if (i / ctx.workers + ctx.seed as usize) % fam_share != 0 {
            continue;
        }
        fam_done += 1;
        r.evaluations += 1;
        match guarded(c) {
            Ok(st) => {
                if st.nontrivial {
                    r.nontrivial_hashes.push(hash_json(c));
                }
            }
            Err(e) => {
                let path = write_replay("C12", ctx.seed, ctx.worker, 1, &replay_body(c, &e));
                r.violations.push(ViolationRec { replay: path, message: e });
                return r;
            }
        }
    }
    r.classes.insert("boundary_family_members".into(), fam_done);
    if ctx.tier == Tier::Thorough {
        r.exhaustive = Some(false);
        r.notes.push(format!("boundary family enumerated completely ({} members over all workers); generated part is a sample", fam.len()));
    }
    // 2. generated cases
    let res = RefCell::new(r);
    let failed = RefCell::new(false);
    let mut runner = TestRunner::new(Config {
        cases: ctx.share(cases) as u32,
        rng_seed: RngSeed::Fixed(ctx.derived_seed(12)),
        failure_persistence: None,
        max_shrink_iters: 2000,
        ..Config::default()
    });
    let outcome = runner.run(&case_strategy(), |case| {
        let out = guarded(&case);
        let counting = !*failed.borrow();
        let mut r = res.borrow_mut();
        if counting {
            r.evaluations += 1;
        }
        match out {
            Ok(st) => {
                if counting {
                    let mut cl = st.classes.clone();
                    cl.sort();
                    cl.dedup();
                    for c in cl {
                        r.bump(c);
                    }
                    if st.nontrivial {
                        r.nontrivial_hashes.push(hash_json(&case));
                        if r.samples.len() < 3 {
                            r.samples.push(serde_json::to_value(&case).unwrap());
                        }
                    }
                }
                Ok(())
            }
            Err(e) => {
                *failed.borrow_mut() = true;
                Err(TestCaseError::fail(e))
            }
        }
    });
    let mut r = res.into_inner();
    if let Err(TestError::Fail(reason, case)) = outcome {
        let msg = reason.message().to_string();
        let path = write_replay("C12", ctx.seed, ctx.worker, 0, &replay_body(&case, &msg));
        r.violations.push(ViolationRec { replay: path, message: msg });
    }
    r
}

pub fn replay(v: &Value) -> Result<(), String> {
    let case: LogCase = serde_json::from_value(v["case"].clone()).map_err(|e| e.to_string())?;
    guarded(&case).map(|_| ())
}
