//! Check registry: maps property ids to worker / replay implementations.

pub mod history;

use crate::runner::*;
use serde_json::Value;

pub const HISTORY_IDS: &[&str] = &["C01", "C03", "C04", "C07", "C09", "C10", "C11"];

pub fn all_ids() -> Vec<&'static str> {
    let mut v: Vec<&'static str> = HISTORY_IDS.to_vec();
    v.sort();
    v
}

pub fn meta(id: &str) -> Option<CheckMeta> {
    if let Some(sp) = history::spec(id) {
        return Some(CheckMeta {
            id: sp.id,
            level: "exploration",
            rule: sp.rule.to_string(),
            assumptions: vec![
                "raindb built from /repo's working tree with the cargo feature verif_hooks (hooks only add code)".into(),
                "the harness MemFs implements the FileSystem trait faithfully (per-handle cursors, POSIX unlink semantics)".into(),
                "oracles are schedule independent: background compaction timing may vary between runs but cannot cause a false alarm".into(),
            ],
        });
    }
    None
}

pub fn worker(ctx: &WorkerCtx) -> WorkerResult {
    if HISTORY_IDS.contains(&ctx.id.as_str()) {
        return history::worker(ctx);
    }
    panic!("unknown check {}", ctx.id);
}

/// Replay a saved case; Err(message) if it still fails.
pub fn replay_value(v: &Value) -> Result<(), String> {
    match v["engine"].as_str().unwrap_or("") {
        "history" => history::replay(v),
        other => Err(format!("unknown replay engine {other:?}")),
    }
}
