//! Check registry: maps property ids to worker / replay implementations.

pub mod batch;
pub mod conc;
pub mod corrupt;
pub mod crash;
pub mod fault;
pub mod history;
pub mod logfmt;
pub mod owner;
pub mod tablefmt;

use crate::runner::*;
use serde_json::Value;

pub const HISTORY_IDS: &[&str] = &["C01", "C03", "C04", "C07", "C09", "C10", "C11"];

pub fn all_ids() -> Vec<&'static str> {
    let mut v: Vec<&'static str> = HISTORY_IDS.to_vec();
    v.extend(["C02", "C16", "C12", "C08", "C15", "C13", "C14", "C05", "C06", "C17"]);
    v.sort();
    v
}

pub fn meta(id: &str) -> Option<CheckMeta> {
    if let Some(sp) = history::spec(id) {
        return Some(CheckMeta {
            id: sp.id,
            level: "exploration",
            rule: sp.rule.to_string(),
            assumptions: vec![
                "raindb built from /repo's working tree with the cargo feature verif_hooks (hooks only add code)".into(),
                "the harness MemFs implements the FileSystem trait faithfully (per-handle cursors, POSIX unlink semantics)".into(),
                "oracles are schedule independent: background compaction timing may vary between runs but cannot cause a false alarm".into(),
            ],
        });
    }
    let fs_assume = vec![
        "crash model: the process dies between two filesystem calls; every completed call is durable, nothing else is (the journal of MemFs is the total order of mutating calls)".to_string(),
        "raindb built from /repo's working tree with the cargo feature verif_hooks (hooks only add code)".to_string(),
    ];
    match id {
        "C02" => Some(CheckMeta {
            id: "C02",
            level: "fault_enumeration",
            rule: "proptest-generated write workloads (puts, deletes, batches, fills, flushes, compact_range, reopens with re-drawn configs, values up to 100 kB) run on a journalling MemFs; for every journal prefix k (quick: all k for journals <= 400 entries, else every create/rename/remove boundary plus a hashed quarter of the appends) the image is rebuilt, opened (reuse_log_files and config varied per point), and must equal the state after the acknowledged batches, optionally plus the whole in-flight batch; then a fresh write, clean close, reopen, equality. 1/16 of the points additionally crash the recovery itself at ~6 of its own journal prefixes (depth 2). evaluations = crash points evaluated; non-trivial = crash point strictly inside an API call or background work with >=1 acknowledged batch; distinct by (workload hash, k)".into(),
            assumptions: fs_assume,
        }),
        "C16" => Some(CheckMeta {
            id: "C16",
            level: "fault_enumeration",
            rule: "same journalled workloads; every append of n>=2 bytes to a WAL, manifest or CURRENT temp file is cut to 1, n/2 and n-1 bytes (thorough: every length for n<=64 and the 6/7/8-byte header boundary), the image is recovered with reuse_log_files true and false, must equal acknowledged (+ optionally in-flight) state, then 1-5 further writes (one of 40 kB in half of the points) are acknowledged, the database is closed and reopened with either setting and must contain them. evaluations = torn images evaluated; non-trivial = the torn file was reused by the recovery, or the tear is inside a fragment of a multi-fragment record; distinct by (workload hash, entry, length, settings)".into(),
            assumptions: fs_assume,
        }),
        "C08" => Some(CheckMeta {
            id: "C08",
            level: "fault_enumeration",
            rule: "proptest-generated workloads (writes, batches, gets, scans, flushes, compact_range, reopens; 20-70 ops) run once fault-free on FaultFs to number every filesystem call after the initial open (create, write/append, rename, remove, open-for-read, read, read_from, len, size, list_dir); then the workload is re-run with call p failing once (transient) and with p and all later calls failing (sticky), for every p (quick: all p when the run has <= 600 calls, else every non-read call plus a hashed eighth of the reads, capped at ~700 positions per workload). Oracle: a write that returned Ok is in the model, one that returned Err may be applied completely or not at all; every get/scan returns an allowed value or an error, never an older value/KeyNotFound/missing key; no call hangs; after disarming, close and reopen succeed and the contents equal the Ok writes plus all-or-nothing of each failed write. evaluations = faulted runs; non-trivial = the armed call was reached and >=1 further API call was made; distinct by (workload hash, position, mode)".into(),
            assumptions: vec![
                "an injected failure has no effect on the file (the call fails before doing anything); partially applied writes are C16's subject".into(),
                "background compaction makes call numbering vary between runs; every run is still a valid single-fault execution and is judged on its own".into(),
            ],
        }),
        "C15" => Some(CheckMeta {
            id: "C15",
            level: "fault_enumeration",
            rule: "images are built by generated write workloads plus a fixed tail (tables on >=2 levels with 16-256 byte blocks, compressible and incompressible values, a manifest with several records, a live WAL with single and multi-key batches); for every persistent file (CURRENT, manifest, WAL, every table) bytes are replaced (quick: one hashed bit flip and one of {0x00,0xff,hashed byte} at every offset of CURRENT/manifest/WAL and of the last 220 bytes of each table, every 3rd offset of the rest of each table, plus ~24 truncation lengths per file, capped at 2500 hashed points per image; thorough: all 8 bit flips + 0x00 + 0xff + hashed byte at every offset and every truncation length). The damaged copy is opened with a fresh block cache and must fail to open, or every get must return the expected value or an error and every scan must be ordered, contain only pairs that were written, and be complete or end with an error; for the WAL the documented skipping of damaged records is allowed (state = base + atomic subsequence of the batches containing all batches before the damage). A scan that stops early must say so through the iterator status channel (take_error). For table damage the database is then asked to compact everything (compact_range(all), quiescence) and every key is read again: the compaction must fail or rewrite what it could verify, it must not drop or resurrect data silently; every image ends with a queue-like table (the lowest ten keys written and deleted again, live keys behind them) so that compactions start with a long run of entries they drop entirely. A value never written for its key is a violation always; stale/missing results caused by damage to an unchecksummed manifest fragment header byte (offset signature) are attributed to the open known finding log-fragment-header-not-checksummed. Panics on damaged input are counted as detected-ungraceful. evaluations = damaged images evaluated; non-trivial = the damaged byte was actually read by the database afterwards; distinct by (image hash, file, mutation)".into(),
            assumptions: vec![
                "corruption happens while the database is closed; the block cache is fresh at open".into(),
                "a panic or failed open counts as detection (the damage was not served as data)".into(),
            ],
        }),
        "C13" => Some(CheckMeta {
            id: "C13",
            level: "exploration",
            rule: "a case is a sorted run of internal entries (1-100 user keys from the special-shape key pool: empty, one byte, 0xff runs, shared prefixes, 300-byte key; 1-5 versions each with descending sequence numbers, puts and deletes, values 0-300 B and a few ~5 kB), a max_block_size from {1,16,64,256,700,4096,1Mi}, Bloom or exact-set filter policy, and a cursor walk; the table is built with the crate's TableBuilder and read with Table/TwoLevelIterator (verif wrappers): data blocks hold exactly the input, forward and backward iteration reproduce it, seek(t) for every entry, (key, seq+-1), sequence bounds above/below all versions, key+0x00, before-first and after-last lands on the first entry >= t, get(user key, bound) answers value/deleted/not-in-this-file exactly, and the walk matches a cursor over the entry list. Non-trivial = >=2 data blocks with one user key's versions straddling a block boundary, or a non-shortenable last key; distinct by case hash".into(),
            assumptions: vec!["TableBuilder/Table are reached through thin wrappers in src/verif.rs; MemFs returns full reads".into()],
        }),
        "C14" => Some(CheckMeta {
            id: "C14",
            level: "exploration",
            rule: "(a) policy level through the public FilterPolicy API: exhaustive family key lengths 0-9 x bits_per_key 1-64 plus generated key sets (0-3000 keys, duplicates, empty key, arbitrary bytes, all lengths mod 4), every member must answer may-match=true, also when the filter is queried by a policy instance with a different bits_per_key (30 % of the generated cases: the policy name stored in table files does not depend on bits_per_key); (b) table level: tables as in C13 (block sizes 1-1Mi so that several data blocks share one 2 KiB filter range and 5 kB values make one block span several), with the Bloom policy and with a harness-supplied exact-set policy (exact membership, so a builder/reader disagreement about which filter covers a block is a deterministic false negative): for every data block offset and every user key stored in that block the filter block must answer may-match, and get of every stored (key, seq) must not be 'not in this file'. Non-trivial = table with >=3 filter ranges where one filter covers >=2 blocks or an empty filter lies between blocks (policy cases: non-empty key set); distinct by case hash".into(),
            assumptions: vec!["the exact-set policy is part of the harness; the filter block builder/reader are raindb's".into()],
        }),
        "C05" => Some(CheckMeta {
            id: "C05",
            level: "exploration",
            rule: "a case is 2-4 client programs (3-14 ops each: put/delete/batch/get/flush over 2-6 keys incl. the empty key, unique values) on a 512-1500 byte memtable, plus 1-4 generated schedule directives (thread T is held at the n-th hit of hook point P - get.unlocked, get.before_version, write.before_wal/after_wal/mid_memtable/after_memtable for clients; flush.before_build, manifest.before/after_append, compaction.step, gc.before/after_delete for the background thread - until all other clients finished or a 20-150 ms safety timeout) or no directives (natural schedule); every op is recorded with invocation/response stamps from one global counter, a quiescent final get of every key is appended, and every key's history is decided by a complete Wing-Gong/Lowe linearizability search with memoisation over a register with deletes (a simple single-read witness is printed when one exists; the checker is self-tested on simulated atomic histories before every run). Every call must return Ok in the fault-free runs. A third campaign adds one sticky failure of the n-th write to a write-ahead log under forced schedules that hold writers before the WAL append (so that followers queue up and group commits form): a write that returned Err is an indeterminate operation (may take effect at any later point or never), one that returned Ok is definite, so a follower that was told Ok although its group commit failed shows up as a lost write. Non-trivial = a get's interval contained a memtable rotation, version install or file deletion (event counters), or a group commit of several writers occurred; distinct by case hash".into(),
            assumptions: vec![
                "per-key linearizability is a necessary condition of linearizability of the whole store (locality); cross-key atomicity is C06".into(),
                "windows that do not cross a hook point (inside the skip list or ArcSwap) are only reached by natural schedules".into(),
                "thread timing varies between runs; the oracle judges the recorded history, so timing cannot cause a false alarm".into(),
            ],
        }),
        "C06" => Some(CheckMeta {
            id: "C06",
            level: "exploration",
            rule: "1-3 writers each own a group of 2-8 keys and apply batches that write their next counter to every key of the group (values 16-316 B, so batches exceed a 512 B memtable), write every key twice in one batch (a transient marker value, then the final value), or delete the whole group; 1-3 readers continuously take a snapshot and get every key at it (forward or reverse key order), scan with a fresh iterator, or issue plain gets (checked only for transient values), until the writers are done; 1-4 generated directives hold a writer at write.before_wal / write.after_wal / write.mid_memtable (after the n-th element) / write.after_memtable for 15-90 ms while the readers keep reading. Oracle: at every read point all keys of a group carry the same counter or are all absent, the counter a reader sees for a group never decreases, and no read of any kind ever returns a value that the same batch overwrites. Non-trivial = at least one read point was taken while a writer was held strictly inside apply (after the WAL append began); distinct by case hash".into(),
            assumptions: vec![
                "holds end after a timeout because queued writers cannot finish while the head writer is held; the timeout affects coverage only".into(),
            ],
        }),
        "C17" => Some(CheckMeta {
            id: "C17",
            level: "exploration",
            rule: "on raindb's own TmpFileSystem (real files, real flock) 2-6 threads execute generated programs over Open / OpenRetry (keep trying for 25 ms, so that the attempt lands inside another thread's close) / Close / WriteClose (write 40 values so that flushes and compactions are in flight, then close at once) / Destroy / Write (through an owned handle) in 2-8 rounds; all operations of a round are released together by a barrier. A harness-side owner ledger judges every round: while a handle that is not being closed in that round is alive, every open and every destroy_database must fail; when nobody holds the database, at most one of the racing opens succeeds and (absent a racing destroy or close) exactly one does; after every round each owner finds its CURRENT and LOCK files still in place, reads back up to 40 keys acknowledged during its ownership and writes a probe key (failed attempts do not disturb the running instance); a filesystem wrapper stamps every mutating call, and once an open has succeeded no background thread of an earlier instance may still modify the directory (an instance keeps its ownership until it has finished closing); at the end the database opens, holds every acknowledged key, refuses destroy while open and is destroyed after close. OpenFaulty is an open whose recovery is made to fail (the n-th read-side filesystem call of that thread fails once): it must fail without disturbing a racing or running instance, and a round that contains one is exempt from the 'exactly one racing open succeeds' rule because the failing open holds the lock for a moment; a fifth of the cases end with a structured round in which an existing database is opened by all threads at once and one of the opens is faulty. Schedule shaping (affects which interleavings occur, never a verdict): half of the cases hold the background thread at compaction.step / flush.before_build / manifest.before_append (once or periodically, 3-16 ms), three in seven delay every mutating filesystem call of a background thread by 0.2-3 ms (a slow disk for background work only), 40 % let WriteClose rewrite nine keys (so that flushed files overlap and table compactions with inline memtable flushes run) and wait for a compaction to be picked before the last writes and the close, OpenRetry keeps trying while some thread is inside a close, and a quarter of the cases end with a structured close race (an owner WriteCloses under those conditions while everybody else keeps trying to open). The 'previous instance silent' rule is judged from the moment the new open acquired the LOCK (reported by the filesystem wrapper), not from its return. Non-trivial = a round with >=2 attempts against a live owner, opens racing with a close, or >=2 racing opens without an owner; distinct by case hash".into(),
            assumptions: vec!["uses real files under the system temp directory (removed when the case ends)".into()],
        }),
        "C12" => Some(CheckMeta {
            id: "C12",
            level: "exploration",
            rule: "round-trip through the crate's LogWriter/LogReader (verif wrappers) on MemFs: a case is 1-4 writer segments (each a list of record lengths drawn from {0,1,2, 7+-3, 32761+-9, 32768+-9, 65522+-9, 65536+-9, 100000, uniform}) ended by a clean close or by the writer dying between two fragments of its last record (file truncated at that fragment boundary), a new writer reopening in append mode, and an optional final truncation at any byte; the reader must return exactly the complete records, byte for byte and in order, then end-of-log, never an error or a record that was not appended; the file length is cross-checked against an independent model of the block layout. Plus an enumerated family: every reachable block offset within 20 bytes of a block boundary (in block 0 and 1) x every record length within 20 of the remaining room (quick: half of the family rotated by seed; thorough: all). Non-trivial = a record starts/ends within 8 bytes of a block boundary or spans blocks, or a reopen/cut falls inside a block; distinct by case hash".into(),
            assumptions: vec!["MemFs returns full reads; LogReader/LogWriter are reached through thin wrappers in src/verif.rs".into()],
        }),
        _ => None,
    }
}

pub fn worker(ctx: &WorkerCtx) -> WorkerResult {
    if ctx.id == "C09" {
        let t0 = std::time::Instant::now();
        let r = history::worker(ctx);
        let t1 = t0.elapsed().as_secs_f64();
        let res = std::cell::RefCell::new(r);
        conc::worker_c09_conc(ctx, &res);
        let t2 = t0.elapsed().as_secs_f64();
        fault::worker_hang_only(ctx, &res);
        let t3 = t0.elapsed().as_secs_f64();
        res.borrow_mut().notes.push(format!("worker {} spent {t1:.1}s in part (i), {:.1}s in parts (ii)/(iii), {:.1}s in part (iv)", ctx.worker, t2 - t1, t3 - t2));
        return res.into_inner();
    }
    if ctx.id == "C11" {
        let mut r = history::worker(ctx);
        if r.violations.is_empty() {
            r.merge(crash::worker(ctx, "C11", 96, 2000));
        }
        let res = std::cell::RefCell::new(r);
        fault::worker_dircheck(ctx, &res);
        return res.into_inner();
    }
    if ctx.id == "C03" {
        let r = history::worker(ctx);
        let res = std::cell::RefCell::new(r);
        batch::worker_c03_conc(ctx, &res);
        return res.into_inner();
    }
    if HISTORY_IDS.contains(&ctx.id.as_str()) {
        return history::worker(ctx);
    }
    match ctx.id.as_str() {
        "C02" => return crash::worker(ctx, "C02", 300, 8000),
        "C16" => return crash::worker(ctx, "C16", 360, 2500),
        "C12" => return logfmt::worker(ctx),
        "C08" => return fault::worker(ctx),
        "C15" => return corrupt::worker(ctx),
        "C05" => return conc::worker_c05(ctx),
        "C06" => return batch::worker(ctx),
        "C17" => return owner::worker(ctx),
        "C13" | "C14" => return tablefmt::worker(ctx),
        _ => {}
    }
    panic!("unknown check {}", ctx.id);
}

/// Turn the bytes of a libFuzzer crash artifact into a replay body of the given engine.
pub fn fuzz_artifact_to_replay(id: &str, engine: &str, bytes: &[u8]) -> Value {
    match engine {
        "logfmt" => logfmt::replay_body(&crate::fuzzdec::log_case(bytes), "found by fuzz_log"),
        "tablefmt" => tablefmt::replay_body(id, &crate::fuzzdec::table_case(bytes), "found by fuzz_table"),
        _ => {
            let o = match id {
                "C03" => crate::engine::Oracles { snapshot: true, cursor: true, ..Default::default() },
                "C04" => crate::engine::Oracles { cursor: true, ..Default::default() },
                "C10" => crate::engine::Oracles { layout: true, ..Default::default() },
                _ => crate::engine::Oracles { latest: true, ..Default::default() },
            };
            history::replay_body(id, &o, &crate::fuzzdec::history_case(bytes), "found by fuzz_history")
        }
    }
}

/// Replay a saved case; Err(message) if it still fails.
pub fn replay_value(v: &Value) -> Result<(), String> {
    match v["engine"].as_str().unwrap_or("") {
        "history" => history::replay(v),
        "crashpoint" => crash::replay(v),
        "logfmt" => logfmt::replay(v),
        "faultpoint" => fault::replay(v),
        "faultpoint-termination" => fault::replay_termination(v),
        "corruptpoint" => corrupt::replay(v),
        "conc" => conc::replay(v),
        "batch" => batch::replay(v),
        "owner" => owner::replay(v),
        "tablefmt" | "filterpolicy" | "filterlayout" => tablefmt::replay(v),
        other => Err(format!("unknown replay engine {other:?}")),
    }
}
