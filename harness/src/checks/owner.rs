//! C17: one owner at a time - a database cannot be opened or destroyed while it is open.

use crate::case::hash_json;
use crate::guard::{run_guarded, Guarded};
use crate::runner::*;
use proptest::prelude::*;
use proptest::sample::select;
use proptest::test_runner::{Config, RngSeed, TestCaseError, TestError, TestRunner};
use raindb::fs::{FileSystem, TmpFileSystem};
use raindb::{DbOptions, RainDBError, ReadOptions, WriteOptions, DB};
use serde::{Deserialize, Serialize};
use serde_json::{json, Value};
use std::cell::RefCell;
use std::collections::BTreeMap;
use std::sync::{Arc, Barrier, Mutex};

#[derive(Clone, Copy, Debug, Serialize, Deserialize, PartialEq, Eq, Hash)]
pub enum TOp {
    Open,
    /// keep trying to open for up to 25 ms (lands inside another thread's close)
    OpenRetry,
    Close,
    Destroy,
    /// write a few keys through the owned handle (no-op without a handle)
    Write,
    /// write enough to leave flushes/compactions in flight, then close immediately
    WriteClose,
    Nop,
    /// an open whose recovery fails: the n-th read-side filesystem call of this thread is failed
    /// once (a failed open must leave a racing or running instance alone)
    OpenFaulty(u8),
}

#[derive(Clone, Debug, Serialize, Deserialize, PartialEq, Eq, Hash)]
pub struct OwnerCase {
    /// rounds[r][t] = what thread t does in round r; all ops of a round are released together
    pub rounds: Vec<Vec<TOp>>,
    pub threads: usize,
    pub small_memtable: bool,
    /// holds of the background thread of whichever instance is running (fixed duration): a close
    /// then finds a table compaction or an inline memtable flush in flight
    #[serde(default)]
    pub directives: Vec<crate::sched::Directive>,
    /// every mutating filesystem call of a database background thread is delayed by this many
    /// microseconds (a slow disk for the background work only): widens the window in which an
    /// instance that gave up its lock too early is still writing
    #[serde(default)]
    pub bg_delay_us: u32,
    /// WriteClose rewrites nine keys per thread instead of writing fresh keys (table compactions)
    #[serde(default)]
    pub overlap: bool,
}

/// Marks "a thread is inside a close" for the duration of a Close/WriteClose operation.
struct ClosingMark(Option<Arc<std::sync::atomic::AtomicU64>>);

impl ClosingMark {
    fn new(c: &Arc<std::sync::atomic::AtomicU64>, active: bool) -> Self {
        if active {
            c.fetch_add(1, std::sync::atomic::Ordering::SeqCst);
            ClosingMark(Some(c.clone()))
        } else {
            ClosingMark(None)
        }
    }
}

impl Drop for ClosingMark {
    fn drop(&mut self) {
        if let Some(c) = &self.0 {
            c.fetch_sub(1, std::sync::atomic::Ordering::SeqCst);
        }
    }
}

struct SchedGuard;

impl Drop for SchedGuard {
    fn drop(&mut self) {
        crate::sched::uninstall();
    }
}

fn opts(fs: &Arc<dyn FileSystem>, small: bool) -> DbOptions {
    DbOptions {
        filesystem_provider: fs.clone(),
        db_path: "owned-db".to_string(),
        create_if_missing: true,
        error_if_exists: false,
        max_memtable_size: if small { 700 } else { 64 * 1024 },
        max_file_size: 2048,
        max_block_size: 256,
        reuse_log_files: true,
        filter_policy: Arc::new(raindb::BloomFilterPolicy::new(10)),
        block_cache: raindb::verif::new_block_cache(1 << 12),
    }
}

#[derive(Clone, Debug)]
enum Res {
    OpenOk,
    OpenErr(String),
    Closed,
    DestroyOk,
    DestroyErr(String),
    Wrote,
    None,
}

#[derive(Default, Clone, Debug)]
pub struct OStats {
    pub nontrivial: bool,
    pub classes: Vec<&'static str>,
}

/// (stamp, thread id, is a database worker thread) of every mutating filesystem call
type Activity = Arc<Mutex<Vec<(u64, std::thread::ThreadId, bool)>>>;

pub fn run_case(case: &OwnerCase) -> Result<OStats, String> {
    crate::engine::set_level_limits(0);
    // one pseudo client that is never "done": holds last for their full duration
    let _sched = if case.directives.is_empty() {
        None
    } else {
        crate::sched::install(crate::sched::SchedState::new(case.directives.clone(), 1));
        Some(SchedGuard)
    };
    let tmp: Arc<dyn FileSystem> = Arc::new(TmpFileSystem::new(None));
    let watch = Arc::new(crate::faultfs::FaultFs::new(tmp));
    let clock = Arc::new(std::sync::atomic::AtomicU64::new(1));
    let activity: Activity = Arc::new(Mutex::new(vec![]));
    // thread id -> stamp of its latest successful lock_file
    let locked_at: Arc<Mutex<std::collections::HashMap<String, u64>>> = Arc::new(Mutex::new(std::collections::HashMap::new()));
    {
        let (clock, activity) = (clock.clone(), activity.clone());
        let bg_delay = case.bg_delay_us as u64;
        let locked_at = locked_at.clone();
        *watch.ctl.observer.lock().unwrap() = Some(Arc::new(move |kind: &'static str| {
            if kind == "locked" {
                // the moment a thread acquired the database lock (open or destroy)
                let s = clock.fetch_add(1, std::sync::atomic::Ordering::SeqCst);
                locked_at.lock().unwrap().insert(format!("{:?}", std::thread::current().id()), s);
                return;
            }
            if matches!(kind, "create" | "write" | "append" | "rename" | "remove") {
                let t = std::thread::current();
                let worker = t.name().map_or(false, |n| n.starts_with("raindb-"));
                if worker && bg_delay > 0 {
                    std::thread::sleep(std::time::Duration::from_micros(bg_delay));
                }
                let s = clock.fetch_add(1, std::sync::atomic::Ordering::SeqCst);
                activity.lock().unwrap().push((s, t.id(), worker));
            }
        }));
    }
    let fs: Arc<dyn FileSystem> = watch.clone();
    // (start stamp, end stamp) of every successful open
    let opens_ok: Arc<Mutex<Vec<(u64, u64, usize, usize)>>> = Arc::new(Mutex::new(vec![]));
    let n = case.threads;
    let rounds = case.rounds.len();
    let barrier = Arc::new(Barrier::new(n));
    let log: Arc<Mutex<Vec<Vec<Res>>>> = Arc::new(Mutex::new(vec![vec![Res::None; n]; rounds]));
    let model: Arc<Mutex<BTreeMap<Vec<u8>, Vec<u8>>>> = Arc::new(Mutex::new(BTreeMap::new()));
    let errors: Arc<Mutex<Vec<String>>> = Arc::new(Mutex::new(vec![]));
    let closing = Arc::new(std::sync::atomic::AtomicU64::new(0));
    let mut handles = vec![];
    for t in 0..n {
        let (fs, barrier, log, model, errors, case, clock, opens_ok, closing, locked_at) =
            (fs.clone(), barrier.clone(), log.clone(), model.clone(), errors.clone(), case.clone(), clock.clone(), opens_ok.clone(), closing.clone(), locked_at.clone());
        let fault_ctl = watch.ctl.clone();
        handles.push(std::thread::Builder::new().name(format!("owner-{t}")).spawn(move || {
            // directives may hold this thread between opening and locking the LOCK file
            crate::sched::set_role(t as i32);
            let mut db: Option<DB> = None;
            let mut wrote = 0u64;
            // what this thread wrote and had acknowledged during its current ownership
            let mut own: Vec<(Vec<u8>, Vec<u8>)> = vec![];
            for r in 0..case.rounds.len() {
                let op = case.rounds[r].get(t).copied().unwrap_or(TOp::Nop);
                barrier.wait();
                let res = match op {
                    TOp::Open | TOp::OpenRetry | TOp::OpenFaulty(_) => match {
                        let t0 = std::time::Instant::now();
                        if let TOp::OpenFaulty(n) = op {
                            *fault_ctl.thread_fault.lock().unwrap() = Some((std::thread::current().id(), n as i64 + 1));
                        }
                        let mut s0 = clock.fetch_add(1, std::sync::atomic::Ordering::SeqCst);
                        let mut r_ = DB::open(opts(&fs, case.small_memtable));
                        // keep trying for 25 ms, and for as long as some thread is still inside a close
                        // of this round (held or slowed-down background work can make a close long)
                        let mut waited_for_close = false;
                        while r_.is_err() && op == TOp::OpenRetry {
                            let el = t0.elapsed();
                            let someone_closing = closing.load(std::sync::atomic::Ordering::SeqCst) > 0;
                            if el >= std::time::Duration::from_millis(25) && !(someone_closing && el < std::time::Duration::from_secs(3)) {
                                if waited_for_close {
                                    // one last attempt after the close has returned
                                    waited_for_close = false;
                                } else {
                                    break;
                                }
                            } else if someone_closing {
                                waited_for_close = true;
                            }
                            if el >= std::time::Duration::from_millis(25) {
                                // every attempt spawns a background thread: do not spin through a long close
                                std::thread::sleep(std::time::Duration::from_micros(1000));
                            }
                            std::thread::yield_now();
                            s0 = clock.fetch_add(1, std::sync::atomic::Ordering::SeqCst);
                            r_ = DB::open(opts(&fs, case.small_memtable));
                        }
                        let s1 = clock.fetch_add(1, std::sync::atomic::Ordering::SeqCst);
                        if let TOp::OpenFaulty(_) = op {
                            *fault_ctl.thread_fault.lock().unwrap() = None;
                        }
                        if r_.is_ok() {
                            // from the moment this open held the lock, nobody else may touch the directory
                            let s_lock = locked_at.lock().unwrap().get(&format!("{:?}", std::thread::current().id())).copied().filter(|s| *s > s0).unwrap_or(s1);
                            opens_ok.lock().unwrap().push((s0, s_lock, r, t));
                        }
                        r_
                    } {
                        Ok(d) => {
                            if db.is_some() {
                                errors.lock().unwrap().push(format!("round {r}: thread {t} opened the database a second time while holding a handle to it"));
                            }
                            db = Some(d);
                            own.clear();
                            Res::OpenOk
                        }
                        Err(e) => Res::OpenErr(if matches!(op, TOp::OpenFaulty(_)) { format!("[faulty open] {e:?}") } else { format!("{e:?}") }),
                    },
                    TOp::Close => {
                        let _closing = ClosingMark::new(&closing, db.is_some());
                        if db.take().is_some() {
                            Res::Closed
                        } else {
                            Res::None
                        }
                    }
                    TOp::Destroy => match DB::destroy_database(opts(&fs, case.small_memtable)) {
                        Ok(()) => Res::DestroyOk,
                        Err(e) => Res::DestroyErr(format!("{e:?}")),
                    },
                    TOp::Write => {
                        if let Some(d) = db.as_ref() {
                            for i in 0..6u64 {
                                wrote += 1;
                                let k = format!("t{t}-{wrote:05}").into_bytes();
                                let v = format!("value-{t}-{wrote}-{}", "x".repeat((i * 17) as usize)).into_bytes();
                                match d.put(WriteOptions::default(), k.clone(), v.clone()) {
                                    Ok(()) => {
                                        model.lock().unwrap().insert(k.clone(), v.clone());
                                        own.push((k, v));
                                    }
                                    Err(e) => errors.lock().unwrap().push(format!("round {r}: the owner's put failed: {e:?}")),
                                }
                            }
                            Res::Wrote
                        } else {
                            Res::None
                        }
                    }
                    TOp::WriteClose => {
                        let _closing = ClosingMark::new(&closing, db.is_some());
                        if let Some(d) = db.take() {
                            let picked0 = raindb::verif::counter(raindb::verif::Counter::SizeCompaction);
                            let n_puts = if case.overlap { 52u64 } else { 40 };
                            for i in 0..n_puts {
                                wrote += 1;
                                // overlapping mode rewrites a small set of keys, so that the flushed
                                // files overlap, pile up in level 0 and table compactions run
                                let k = if case.overlap { format!("t{t}-{:05}", wrote % 9) } else { format!("t{t}-{wrote:05}") }.into_bytes();
                                if case.overlap && i + 14 == n_puts {
                                    // let the background thread catch up with the flushes and start a
                                    // table compaction; the remaining writes and the close then
                                    // happen while that compaction runs (affects the schedule only)
                                    let t0 = std::time::Instant::now();
                                    while raindb::verif::counter(raindb::verif::Counter::SizeCompaction) == picked0
                                        && t0.elapsed() < std::time::Duration::from_millis(150)
                                    {
                                        std::thread::sleep(std::time::Duration::from_micros(200));
                                    }
                                }
                                let v = format!("value-{t}-{wrote}-{}", "y".repeat(60 + (i % 7) as usize * 10)).into_bytes();
                                match d.put(WriteOptions::default(), k.clone(), v.clone()) {
                                    Ok(()) => {
                                        model.lock().unwrap().insert(k, v);
                                    }
                                    Err(e) => errors.lock().unwrap().push(format!("round {r}: the owner's put failed: {e:?}")),
                                }
                            }
                            if case.overlap && (t + r) % 2 == 0 {
                                // half of the overlapping closes wait (at most 200 ms) until the background
                                // thread has picked a second size compaction: that one is usually a follow-up
                                // task the worker queued for itself after the first (affects the schedule only)
                                let t0 = std::time::Instant::now();
                                while raindb::verif::counter(raindb::verif::Counter::SizeCompaction) < picked0 + 2
                                    && t0.elapsed() < std::time::Duration::from_millis(200)
                                {
                                    std::thread::sleep(std::time::Duration::from_micros(100));
                                }
                            }
                            drop(d);
                            Res::Closed
                        } else {
                            Res::None
                        }
                    }
                    TOp::Nop => Res::None,
                };
                log.lock().unwrap()[r][t] = res;
                barrier.wait();
                // the owner is undisturbed: everything acknowledged so far is readable, writes work
                if let Some(d) = db.as_ref() {
                    // nobody may delete the files of a running instance
                    for name in ["owned-db/CURRENT", "owned-db/LOCK"] {
                        if fs.open_file(std::path::Path::new(name)).is_err() {
                            errors.lock().unwrap().push(format!(
                                "round {r}: {name} of the running instance (thread {t}) was deleted while the instance was open"
                            ));
                        }
                    }
                    for (k, v) in own.iter().rev().take(40) {
                        match d.get(ReadOptions::default(), k) {
                            Ok(g) if &g == v => {}
                            other => {
                                errors.lock().unwrap().push(format!(
                                    "round {r}: the running instance lost data after other threads' attempts: get({}) = {:?}",
                                    String::from_utf8_lossy(k),
                                    other.map(|v| v.len())
                                ));
                                break;
                            }
                        }
                    }
                    wrote += 1;
                    let k = format!("t{t}-{wrote:05}").into_bytes();
                    match d.put(WriteOptions::default(), k.clone(), b"probe".to_vec()) {
                        Ok(()) => {
                            model.lock().unwrap().insert(k.clone(), b"probe".to_vec());
                            own.push((k, b"probe".to_vec()));
                        }
                        Err(e) => errors.lock().unwrap().push(format!("round {r}: the running instance can no longer write after other threads' attempts: {e:?}")),
                    }
                }
                barrier.wait();
            }
            drop(db);
        }).unwrap());
    }
    for h in handles {
        if h.join().is_err() {
            return Err("a thread panicked inside open/close/destroy".into());
        }
    }
    let first_error = errors.lock().unwrap().first().cloned();
    // an instance that lost ownership must be silent: once an open succeeded, no worker thread of
    // an earlier instance may still be modifying the directory
    {
        let act = activity.lock().unwrap();
        let mut first_seen: BTreeMap<String, u64> = BTreeMap::new();
        for (s, id, worker) in act.iter() {
            if *worker {
                first_seen.entry(format!("{id:?}")).or_insert(*s);
            }
        }
        for (s0, s1, r, t) in opens_ok.lock().unwrap().iter() {
            for (s, id, worker) in act.iter() {
                if *worker && *s > *s1 && first_seen[&format!("{id:?}")] < *s0 {
                    return Err(format!(
                        "round {r}: thread {t} opened the database while the background thread of the previous instance was still writing to the directory (that instance had not finished closing)"
                    ));
                }
            }
        }
    }
    // judge the log
    let log = log.lock().unwrap().clone();
    let mut stats = OStats::default();
    let mut owners: Vec<bool> = vec![false; n];
    // once a destroy ran without a live owner, what is on disk depends on how it interleaved with
    // the opens and closes of its round; only the ownership rules are judged from then on
    let mut destroy_ran_unowned = false;
    for (r, row) in log.iter().enumerate() {
        let alive: Vec<usize> = (0..n).filter(|t| owners[*t]).collect();
        let closing: Vec<usize> = (0..n).filter(|t| matches!(row[*t], Res::Closed)).collect();
        let steady_owner = alive.iter().any(|t| !closing.contains(t));
        let open_ok: Vec<usize> = (0..n).filter(|t| matches!(row[*t], Res::OpenOk)).collect();
        let open_attempts = (0..n).filter(|t| matches!(row[*t], Res::OpenOk | Res::OpenErr(_))).count();
        let destroy_ok = (0..n).filter(|t| matches!(row[*t], Res::DestroyOk)).count();
        let destroy_attempts = (0..n).filter(|t| matches!(row[*t], Res::DestroyOk | Res::DestroyErr(_))).count();
        if steady_owner {
            if !open_ok.is_empty() {
                return Err(format!("round {r}: thread(s) {open_ok:?} opened the database while thread(s) {alive:?} held it open"));
            }
            if destroy_ok > 0 {
                return Err(format!("round {r}: destroy_database succeeded while thread(s) {alive:?} held the database open"));
            }
            if open_attempts + destroy_attempts >= 2 {
                stats.nontrivial = true;
                stats.classes.push("several_attempts_against_a_live_owner");
            }
        } else {
            if open_ok.len() > 1 {
                return Err(format!("round {r}: {} racing open attempts succeeded at once: threads {open_ok:?}", open_ok.len()));
            }
            if destroy_attempts > 0 {
                destroy_ran_unowned = true;
            }
            // an open whose recovery was made to fail holds the lock for a moment: the others may lose against it
            let faulty_failed = row.iter().any(|x| matches!(x, Res::OpenErr(e) if e.starts_with("[faulty open]")));
            if open_attempts >= 1 && open_ok.is_empty() && !destroy_ran_unowned && closing.is_empty() && !faulty_failed {
                let errs: Vec<String> = row.iter().filter_map(|x| if let Res::OpenErr(e) = x { Some(e.chars().take(120).collect()) } else { None }).collect();
                return Err(format!("round {r}: nobody held the database, {open_attempts} threads raced to open it and none succeeded: {errs:?}"));
            }
            if !closing.is_empty() && open_attempts >= 1 {
                stats.nontrivial = true;
                stats.classes.push("open_attempts_racing_with_a_close");
            }
            if open_attempts >= 2 {
                stats.classes.push("racing_opens_without_owner");
                stats.nontrivial = true;
            }
        }
        for t in closing {
            owners[t] = false;
        }
        for t in open_ok {
            owners[t] = true;
        }
    }
    if let Some(e) = first_error {
        let show: Vec<String> = log
            .iter()
            .enumerate()
            .map(|(r, row)| {
                format!(
                    "r{r}:[{}]",
                    row.iter()
                        .map(|x| match x {
                            Res::OpenOk => "open=ok".to_string(),
                            Res::OpenErr(_) => "open=err".to_string(),
                            Res::Closed => "closed".to_string(),
                            Res::DestroyOk => "destroy=ok".to_string(),
                            Res::DestroyErr(_) => "destroy=err".to_string(),
                            Res::Wrote => "wrote".to_string(),
                            Res::None => "-".to_string(),
                        })
                        .collect::<Vec<_>>()
                        .join(",")
                )
            })
            .collect();
        return Err(format!("{e}; outcomes per round and thread: {}", show.join(" ")));
    }
    // afterwards the database is intact: open, everything acknowledged is there
    let m = model.lock().unwrap().clone();
    let ambiguous = destroy_ran_unowned;
    let db = match DB::open(opts(&fs, case.small_memtable)) {
        Ok(db) => db,
        Err(e) => {
            if ambiguous {
                // a destroy that raced with opens may leave a directory that cannot be opened;
                // that is outside this property (nobody owned the database at that time)
                return Ok(stats);
            }
            return Err(format!("final open after everyone closed failed: {e:?}"));
        }
    };
    if !ambiguous {
        for (k, v) in m.iter() {
            match db.get(ReadOptions::default(), k) {
                Ok(g) if &g == v => {}
                Err(RainDBError::KeyNotFound) => return Err(format!("after everyone closed, acknowledged key {} is gone", String::from_utf8_lossy(k))),
                other => return Err(format!("after everyone closed, get({}) = {:?}", String::from_utf8_lossy(k), other.map(|v| v.len()))),
            }
        }
    }
    if DB::destroy_database(opts(&fs, case.small_memtable)).is_ok() {
        return Err("destroy_database succeeded while the final handle was open".into());
    }
    drop(db);
    DB::destroy_database(opts(&fs, case.small_memtable)).map_err(|e| format!("destroy_database of a closed database failed: {e:?}"))?;
    Ok(stats)
}

fn strategy() -> BoxedStrategy<OwnerCase> {
    (2usize..=6)
        .prop_flat_map(|n| {
            // destroy is only generated for rounds together with opens when judged safely: the
            // judge ignores data checks for rounds where both succeed
            let op = prop_oneof![
                6 => Just(TOp::Open),
                2 => Just(TOp::OpenRetry),
                3 => Just(TOp::Close),
                2 => Just(TOp::Destroy),
                3 => Just(TOp::Write),
                2 => Just(TOp::WriteClose),
                2 => (0u8..8).prop_map(TOp::OpenFaulty),
                2 => Just(TOp::Nop),
            ];
            let hold = (select(vec!["compaction.step", "compaction.step", "flush.before_build", "manifest.before_append"]), 0u32..8, 3u32..16, select(vec![0u32, 0, 3, 6]))
                .prop_map(|(p, nth, max_hold_ms, every)| crate::sched::Directive { role: -1, point: p.to_string(), nth, max_hold_ms, linger_ms: 0, every });
            // a thread held for a few milliseconds between opening the LOCK file and locking it (while
            // others destroy and re-create the database)
            let lock_hold = (0..n as i32, 0u32..8, 2u32..12)
                .prop_map(|(role, nth, max_hold_ms)| crate::sched::Directive { role, point: "lock.after_open".to_string(), nth, max_hold_ms, linger_ms: 0, every: 0 });
            let holds = prop_oneof![
                3 => Just(vec![]),
                3 => prop::collection::vec(hold, 1..5),
                2 => prop::collection::vec(lock_hold.clone(), 1..4),
            ];
            let delay = select(vec![0u32, 0, 0, 0, 0, 100, 300, 1000]);
            (prop::collection::vec(prop::collection::vec(op, n), 2..9), Just(n), (any::<bool>(), holds, delay, prop::bool::weighted(0.4)), 0u8..5, 0usize..6)
        })
        .prop_map(|(mut rounds, threads, (small_memtable, mut directives, mut bg_delay_us, mut overlap), pattern, who)| {
            // structured tail (1 of 5 cases): an owner writes until table compactions with inline
            // memtable flushes are running (slowed-down, periodically held background thread) and
            // closes at once while all other threads keep trying to open the database
            if pattern == 3 {
                let w = who % threads;
                let mut open = vec![TOp::Nop; threads];
                open[w] = TOp::Open;
                let mut race = vec![TOp::OpenRetry; threads];
                race[w] = TOp::WriteClose;
                rounds.push(vec![TOp::Close; threads]);
                rounds.push(open);
                rounds.push(race);
                rounds.push(vec![TOp::Write; threads]);
                rounds.push(vec![TOp::Close; threads]);
                overlap = true;
                bg_delay_us = bg_delay_us.max(300);
                directives.push(crate::sched::Directive { role: -1, point: "compaction.step".into(), nth: (who % 3) as u32, max_hold_ms: 6, linger_ms: 0, every: 3 });
            }
            // structured tail (1 of 5 cases): an existing database is opened by everybody at once, and
            // the open of one thread fails during its recovery
            if pattern == 4 {
                let w = who % threads;
                let mut create = vec![TOp::Nop; threads];
                create[w] = TOp::Open;
                let mut fill = vec![TOp::Nop; threads];
                fill[w] = TOp::WriteClose;
                let mut race = vec![TOp::OpenRetry; threads];
                race[w] = TOp::OpenFaulty((who % 5) as u8);
                rounds.push(vec![TOp::Close; threads]);
                rounds.push(create);
                rounds.push(fill);
                rounds.push(race);
                rounds.push(vec![TOp::Write; threads]);
                rounds.push(vec![TOp::Close; threads]);
            }
            // structured tail (2 of 5 cases): somebody creates and closes a database, then one thread
            // destroys it while all others keep trying to open it, and everybody closes again
            if pattern == 1 || pattern == 2 {
                let w = who % threads;
                let mut open = vec![TOp::Nop; threads];
                open[w] = TOp::Open;
                let mut fill = vec![TOp::Nop; threads];
                fill[w] = TOp::WriteClose;
                let mut race = vec![TOp::OpenRetry; threads];
                race[(w + pattern as usize) % threads] = TOp::Destroy;
                rounds.push(vec![TOp::Close; threads]);
                rounds.push(open);
                rounds.push(fill);
                rounds.push(race);
                rounds.push(vec![TOp::Write; threads]);
                rounds.push(vec![TOp::Close; threads]);
            }
            OwnerCase { rounds, threads, small_memtable: small_memtable || !directives.is_empty() || bg_delay_us > 0, directives, bg_delay_us, overlap }
        })
        .boxed()
}

enum Outcome {
    Pass(OStats),
    Fail(String),
    Hung(String),
}

fn guarded(case: &OwnerCase) -> Outcome {
    let c = case.clone();
    match run_guarded("owner-case", move || run_case(&c)) {
        Guarded::Done(Ok(s)) => Outcome::Pass(s),
        Guarded::Done(Err(e)) => Outcome::Fail(e),
        Guarded::Panicked(m) => Outcome::Fail(format!("a call panicked: {m}")),
        Guarded::Hung(m) => Outcome::Hung(m),
    }
}

pub fn worker(ctx: &WorkerCtx) -> WorkerResult {
    let cases = match ctx.tier {
        Tier::Quick => 3200u64,
        Tier::Thorough => 20_000,
    };
    let cases = std::env::var("VERIF_CASES").ok().and_then(|s| s.parse().ok()).unwrap_or(cases);
    let res = RefCell::new(WorkerResult::default());
    let failed = RefCell::new(false);
    let first: RefCell<Option<(OwnerCase, String)>> = RefCell::new(None);
    let mut runner = TestRunner::new(Config {
        cases: ctx.share(cases).max(1) as u32,
        rng_seed: RngSeed::Fixed(ctx.derived_seed(17)),
        failure_persistence: None,
        max_shrink_iters: 300,
        ..Config::default()
    });
    let outcome = runner.run(&strategy(), |case| {
        let out = guarded(&case);
        let counting = !*failed.borrow();
        let mut r = res.borrow_mut();
        if counting {
            r.evaluations += 1;
        }
        match out {
            Outcome::Pass(st) => {
                if counting {
                    let mut cl = st.classes.clone();
                    cl.sort();
                    cl.dedup();
                    for c in cl {
                        r.bump(c);
                    }
                    if st.nontrivial {
                        r.nontrivial_hashes.push(hash_json(&case));
                        if r.samples.len() < 2 {
                            r.samples.push(serde_json::to_value(&case).unwrap());
                        }
                    }
                }
                Ok(())
            }
            Outcome::Fail(e) => {
                if counting {
                    *first.borrow_mut() = Some((case.clone(), e.clone()));
                }
                *failed.borrow_mut() = true;
                Err(TestCaseError::fail(e))
            }
            Outcome::Hung(m) => {
                if counting {
                    r.inconclusive.push(format!("a call did not return (C09's property): {m}"));
                }
                Ok(())
            }
        }
    });
    if let Err(TestError::Fail(reason, case)) = outcome {
        let mut msg = reason.message().to_string();
        let mut case = case;
        let mut confirmed = false;
        for _ in 0..5 {
            if let Outcome::Fail(e) = guarded(&case) {
                msg = e;
                confirmed = true;
                break;
            }
        }
        if !confirmed {
            if let Some((c, m)) = first.borrow().clone() {
                case = c;
                msg = m;
            }
        }
        let body = json!({"property": "C17", "engine": "owner", "case": case, "message": msg});
        let path = write_replay("C17", ctx.seed, ctx.worker, 0, &body);
        res.borrow_mut().violations.push(ViolationRec { replay: path, message: msg });
    }
    res.into_inner()
}

pub fn replay(v: &Value) -> Result<(), String> {
    let case: OwnerCase = serde_json::from_value(v["case"].clone()).map_err(|e| e.to_string())?;
    // schedule-dependent cases are repeated; a deterministic hand-written case may ask for fewer repeats
    let repeats = v["repeats"].as_u64().unwrap_or(20);
    for _ in 0..repeats {
        if let Outcome::Fail(e) = guarded(&case) {
            return Err(e);
        }
    }
    Ok(())
}
