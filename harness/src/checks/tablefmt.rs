//! C13 (table round-trip) and C14 (filters never hide a present key).

use crate::case::{hash_json, hex, key_pool, Cfg};
use crate::engine::options;
use crate::guard::{run_guarded, Guarded};
use crate::memfs::MemFs;
use crate::runner::*;
use proptest::prelude::*;
use proptest::sample::{select, subsequence};
use proptest::test_runner::{Config, RngSeed, TestCaseError, TestError, TestRunner};
use raindb::filter_policy::{FilterPolicy, FilterPolicyError};
use raindb::verif::{build_table, VGet, VKey, VTable};
use raindb::BloomFilterPolicy;
use serde::{Deserialize, Serialize};
use serde_json::{json, Value};
use std::cell::RefCell;
use std::collections::BTreeSet;
use std::sync::Arc;

/// A filter policy that stores the key set itself: membership is exact, so a builder/reader
/// disagreement about which filter covers a block is a deterministic false negative.
#[derive(Debug)]
pub struct ExactSetPolicy;

impl FilterPolicy for ExactSetPolicy {
    fn get_name(&self) -> String {
        "Verif.ExactSet".to_string()
    }
    fn create_filter(&self, keys: &[Vec<u8>]) -> Vec<u8> {
        let set: BTreeSet<&Vec<u8>> = keys.iter().collect();
        let mut out = vec![0xEEu8];
        for k in set {
            out.extend_from_slice(&(k.len() as u32).to_le_bytes());
            out.extend_from_slice(k);
        }
        out
    }
    fn key_may_match(&self, key: &[u8], filter: &[u8]) -> Result<bool, FilterPolicyError> {
        if filter.first() != Some(&0xEE) {
            return Err(FilterPolicyError::Parse("not an exact-set filter".into()));
        }
        let mut i = 1usize;
        while i + 4 <= filter.len() {
            let n = u32::from_le_bytes(filter[i..i + 4].try_into().unwrap()) as usize;
            i += 4;
            if i + n > filter.len() {
                return Err(FilterPolicyError::Parse("truncated exact-set filter".into()));
            }
            if &filter[i..i + n] == key {
                return Ok(true);
            }
            i += n;
        }
        Ok(false)
    }
}

#[derive(Clone, Debug, Serialize, Deserialize, PartialEq, Eq, Hash)]
pub struct Entry {
    #[serde(with = "crate::case::hexbytes")]
    pub key: Vec<u8>,
    pub seq: u64,
    pub is_put: bool,
    pub vlen: u32,
}

#[derive(Clone, Debug, Serialize, Deserialize, PartialEq, Eq, Hash)]
pub enum TCur {
    First,
    Last,
    /// seek to entry index (monotone selector) with a sequence offset of -1/0/+1
    SeekEntry(u16, i8),
    /// seek to raw user key bytes with the given sequence bound
    SeekRaw(#[serde(with = "crate::case::hexbytes")] Vec<u8>, u64),
    Next,
    Prev,
}

#[derive(Clone, Debug, Serialize, Deserialize, PartialEq, Eq, Hash)]
pub struct TableCase {
    /// sorted by (key asc, seq desc), strictly increasing in internal-key order
    pub entries: Vec<Entry>,
    pub block_size: usize,
    pub exact_filter: bool,
    pub walk: Vec<TCur>,
}

fn value_of(e: &Entry) -> Vec<u8> {
    if !e.is_put {
        return vec![];
    }
    let mut v = Vec::with_capacity(e.vlen as usize);
    let tag = e.seq.to_be_bytes();
    for i in 0..e.vlen as usize {
        v.push(if i < 8 { tag[i] } else { (e.key.len() as u8).wrapping_add((i * 13) as u8) ^ (e.seq as u8) });
    }
    v
}

fn vkey(e: &Entry) -> VKey {
    VKey { user_key: e.key.clone(), seq: e.seq, is_put: e.is_put }
}

/// internal-key order: user key ascending, sequence descending
fn icmp(ak: &[u8], aseq: u64, bk: &[u8], bseq: u64) -> std::cmp::Ordering {
    ak.cmp(bk).then(bseq.cmp(&aseq))
}

fn lower_bound(entries: &[Entry], k: &[u8], seq: u64) -> Option<usize> {
    entries.iter().position(|e| icmp(&e.key, e.seq, k, seq) != std::cmp::Ordering::Less)
}

pub struct TStats {
    pub nontrivial13: bool,
    pub nontrivial14: bool,
    pub classes: Vec<&'static str>,
}

fn show(e: Option<(VKey, Vec<u8>)>) -> String {
    match e {
        None => "invalid".into(),
        Some((k, v)) => format!("({}@{}:{}, {}B)", hex(&k.user_key), k.seq, if k.is_put { "P" } else { "D" }, v.len()),
    }
}

pub fn run_table_case(case: &TableCase, check13: bool, check14: bool) -> Result<TStats, String> {
    let fs = Arc::new(MemFs::new(false));
    let cfg = Cfg { memtable: 4 << 20, file: 2 << 20, block: case.block_size, reuse: true };
    let mut opts = options(&fs, &cfg);
    opts.filter_policy = if case.exact_filter { Arc::new(ExactSetPolicy) } else { Arc::new(BloomFilterPolicy::new(10)) };
    let built: Vec<(VKey, Vec<u8>)> = case.entries.iter().map(|e| (vkey(e), value_of(e))).collect();
    if built.is_empty() {
        return Ok(TStats { nontrivial13: false, nontrivial14: false, classes: vec![] });
    }
    use raindb::fs::FileSystem;
    let _ = fs.create_dir_all(std::path::Path::new("db/data"));
    build_table(opts.clone(), 7, &built).map_err(|e| format!("building the table failed: {e}"))?;
    let t = VTable::open(opts.clone(), 7).map_err(|e| format!("opening the freshly built table failed: {e}"))?;
    let blocks = t.blocks().map_err(|e| format!("listing blocks failed: {e}"))?;
    let mut classes: Vec<&'static str> = vec![];
    let entries = &case.entries;
    let n = entries.len();
    // layout facts
    let flat: Vec<VKey> = blocks.iter().flat_map(|(_, ks)| ks.iter().cloned()).collect();
    let want_keys: Vec<VKey> = entries.iter().map(vkey).collect();
    if flat != want_keys {
        return Err(format!("the data blocks hold {} keys, the table was built from {}; first difference at index {:?}", flat.len(), n,
            flat.iter().zip(want_keys.iter()).position(|(a, b)| a != b)));
    }
    let mut straddle = false;
    for w in blocks.windows(2) {
        if let (Some(a), Some(b)) = (w[0].1.last(), w[1].1.first()) {
            if a.user_key == b.user_key {
                straddle = true;
            }
        }
    }
    let last_key = &entries[n - 1].key;
    let nonshortenable = last_key.is_empty() || last_key.iter().all(|b| *b == 0xff) || last_key.len() == 1;
    if blocks.len() >= 2 {
        classes.push("multi_block_table");
    }
    if straddle {
        classes.push("user_key_versions_straddle_block_boundary");
    }
    if nonshortenable {
        classes.push("non_shortenable_last_key");
    }
    let nontrivial13 = (blocks.len() >= 2 && straddle) || nonshortenable;
    let idxs: Vec<u64> = blocks.iter().map(|(o, _)| o / 2048).collect();
    let distinct: BTreeSet<u64> = idxs.iter().copied().collect();
    let shared = idxs.len() > distinct.len();
    let max_idx = idxs.iter().copied().max().unwrap_or(0);
    let gaps = (max_idx + 1) as usize > distinct.len();
    if shared {
        classes.push("filter_covers_several_blocks");
    }
    if gaps {
        classes.push("empty_filter_between_blocks");
    }
    let nontrivial14 = distinct.len() + (gaps as usize) >= 3 && (shared || gaps);

    if check14 {
        for (off, keys) in &blocks {
            for k in keys {
                match t.filter_may_match(*off, &k.user_key) {
                    Some(true) => {}
                    Some(false) => {
                        return Err(format!(
                            "filter block consulted with the offset {off} of a data block answers 'no match' for user key {} stored in that block ({} policy)",
                            hex(&k.user_key),
                            if case.exact_filter { "exact-set" } else { "bloom" }
                        ))
                    }
                    None => return Err("the table has no filter block although a filter policy is configured".into()),
                }
            }
        }
        for e in entries.iter() {
            match t.get(&e.key, e.seq) {
                Ok(VGet::NotInFile) => {
                    return Err(format!("lookup of ({}, seq {}) which is stored in the table was cut short: 'not in this file'", hex(&e.key), e.seq))
                }
                Ok(_) => {}
                Err(er) => return Err(format!("lookup of a stored key failed: {er}")),
            }
        }
    }
    if !check13 {
        return Ok(TStats { nontrivial13, nontrivial14, classes });
    }
    // forward
    let mut it = t.iter();
    it.seek_to_first().map_err(|e| format!("seek_to_first: {e}"))?;
    for (i, e) in entries.iter().enumerate() {
        let cur = it.current();
        if cur != Some((vkey(e), value_of(e))) {
            return Err(format!("forward iteration: entry #{i} is {} but ({}@{}) was added", show(cur), hex(&e.key), e.seq));
        }
        it.next();
    }
    if it.is_valid() {
        return Err(format!("forward iteration yields more than the {n} entries added: {}", show(it.current())));
    }
    // backward
    let mut it = t.iter();
    it.seek_to_last().map_err(|e| format!("seek_to_last: {e}"))?;
    for (i, e) in entries.iter().enumerate().rev() {
        let cur = it.current();
        if cur != Some((vkey(e), value_of(e))) {
            return Err(format!("backward iteration: entry #{i} is {} but ({}@{}) was added", show(cur), hex(&e.key), e.seq));
        }
        it.prev();
    }
    if it.is_valid() {
        return Err(format!("backward iteration yields more than the {n} entries added: {}", show(it.current())));
    }
    // seeks: every entry, seq+-1, between/before/after
    let mut targets: Vec<(Vec<u8>, u64)> = vec![];
    for e in entries.iter() {
        targets.push((e.key.clone(), e.seq));
        targets.push((e.key.clone(), e.seq.saturating_add(1)));
        targets.push((e.key.clone(), e.seq.saturating_sub(1)));
        targets.push((e.key.clone(), u64::MAX >> 8));
        targets.push((e.key.clone(), 0));
        let mut k2 = e.key.clone();
        k2.push(0);
        targets.push((k2, u64::MAX >> 8));
    }
    targets.push((vec![], u64::MAX >> 8));
    targets.push((vec![0xff; 8], 0));
    for (k, s) in &targets {
        let mut it = t.iter();
        it.seek(&VKey { user_key: k.clone(), seq: *s, is_put: true }).map_err(|e| format!("seek: {e}"))?;
        let want = lower_bound(entries, k, *s).map(|i| (vkey(&entries[i]), value_of(&entries[i])));
        let got = it.current();
        if got != want {
            return Err(format!("seek({}@{s}) positioned at {} but the first entry not less than the target is {}", hex(k), show(got), show(want)));
        }
    }
    // point lookups
    let mut probes: Vec<(Vec<u8>, u64)> = targets.clone();
    for pk in key_pool().iter().step_by(7) {
        probes.push((pk.clone(), u64::MAX >> 8));
    }
    for (k, bound) in &probes {
        let want = entries.iter().find(|e| &e.key == k && e.seq <= *bound).map(|e| if e.is_put { VGet::Value(value_of(e)) } else { VGet::Deleted }).unwrap_or(VGet::NotInFile);
        match t.get(k, *bound) {
            Ok(got) => {
                if got != want {
                    let f = |g: &VGet| match g {
                        VGet::Value(v) => format!("value of {}B (tag {})", v.len(), if v.len() >= 8 { u64::from_be_bytes(v[..8].try_into().unwrap()) } else { 0 }),
                        VGet::Deleted => "deleted".into(),
                        VGet::NotInFile => "not in this file".into(),
                    };
                    return Err(format!("get({}, bound {bound}) answered '{}' but the newest entry at or below the bound is '{}'", hex(k), f(&got), f(&want)));
                }
            }
            Err(e) => return Err(format!("get({}, {bound}) failed: {e}", hex(k))),
        }
    }
    // cursor walk
    let mut it = t.iter();
    let mut pos: Option<usize> = None;
    for (step, c) in case.walk.iter().enumerate() {
        match c {
            TCur::First => {
                it.seek_to_first().map_err(|e| e.to_string())?;
                pos = Some(0);
            }
            TCur::Last => {
                it.seek_to_last().map_err(|e| e.to_string())?;
                pos = Some(n - 1);
            }
            TCur::SeekEntry(sel, d) => {
                let i = (*sel as usize * n) >> 16;
                let seq = match d {
                    -1 => entries[i].seq.saturating_sub(1),
                    1 => entries[i].seq.saturating_add(1),
                    _ => entries[i].seq,
                };
                it.seek(&VKey { user_key: entries[i].key.clone(), seq, is_put: true }).map_err(|e| e.to_string())?;
                pos = lower_bound(entries, &entries[i].key, seq);
            }
            TCur::SeekRaw(k, s) => {
                it.seek(&VKey { user_key: k.clone(), seq: *s, is_put: true }).map_err(|e| e.to_string())?;
                pos = lower_bound(entries, k, *s);
            }
            TCur::Next => {
                let r = it.next();
                pos = match pos {
                    Some(i) if i + 1 < n => Some(i + 1),
                    _ => None,
                };
                let want = pos.map(|i| (vkey(&entries[i]), value_of(&entries[i])));
                if r != want {
                    return Err(format!("walk step {step}: next() returned {} but the next entry is {}", show(r), show(want)));
                }
            }
            TCur::Prev => {
                let r = it.prev();
                pos = match pos {
                    Some(i) if i > 0 => Some(i - 1),
                    _ => None,
                };
                let want = pos.map(|i| (vkey(&entries[i]), value_of(&entries[i])));
                if r != want {
                    return Err(format!("walk step {step}: prev() returned {} but the previous entry is {}", show(r), show(want)));
                }
            }
        }
        let want = pos.map(|i| (vkey(&entries[i]), value_of(&entries[i])));
        let got = it.current();
        if got != want || it.is_valid() != want.is_some() {
            return Err(format!("walk step {step} ({c:?}): iterator at {} but a cursor over the entries is at {}", show(got), show(want)));
        }
    }
    Ok(TStats { nontrivial13, nontrivial14, classes })
}

fn entries_strategy(max_keys: usize) -> impl Strategy<Value = Vec<Entry>> {
    let per_key = prop::collection::vec((any::<u32>(), prop::bool::weighted(0.8), prop_oneof![
        10 => 0u32..40, 10 => 40u32..300, 2 => 900u32..2500, 1 => 4000u32..6000,
        // lengths at which the length prefix of a block entry grows, and one value of several log-block sizes
        2 => select(vec![127u32, 128, 129, 255, 256, 257, 16_383, 16_384, 16_385])]), 1..6);
    // sequence numbers start at 1, above 2^32, or just below the largest sequence number (2^56 - 1)
    let base = prop_oneof![6 => Just(0u64), 1 => Just(1u64 << 32), 1 => Just((1u64 << 56) - 5002)];
    (subsequence(key_pool(), 1..=max_keys), prop::collection::vec(per_key, max_keys), base)
        .prop_map(|(keys, vers, base)| {
            let mut out = vec![];
            for (k, vs) in keys.iter().zip(vers.into_iter()) {
                let mut seqs: Vec<(u64, bool, u32)> = vs.into_iter().map(|(s, p, l)| (base + (s as u64 % 5000) + 1, p, l)).collect();
                seqs.sort_by(|a, b| b.0.cmp(&a.0));
                seqs.dedup_by_key(|x| x.0);
                for (s, p, l) in seqs {
                    out.push(Entry { key: k.clone(), seq: s, is_put: p, vlen: if p { l } else { 0 } });
                }
            }
            out
        })
}

fn walk_strategy() -> impl Strategy<Value = Vec<TCur>> {
    let c = prop_oneof![
        2 => Just(TCur::First),
        2 => Just(TCur::Last),
        5 => (any::<u16>(), -1i8..=1).prop_map(|(s, d)| TCur::SeekEntry(s, d)),
        2 => (select(key_pool()), prop_oneof![Just(0u64), Just(u64::MAX >> 8), 0u64..6000]).prop_map(|(k, s)| TCur::SeekRaw(k, s)),
        8 => Just(TCur::Next),
        8 => Just(TCur::Prev),
    ];
    prop::collection::vec(c, 0..40)
}

pub fn case_strategy() -> impl Strategy<Value = TableCase> {
    (
        prop_oneof![3 => entries_strategy(12), 2 => entries_strategy(60), 1 => entries_strategy(90)],
        select(vec![1usize, 16, 64, 256, 700, 4096, 8192, 8192, 16_384, 65_536, 1 << 20]),
        any::<bool>(),
        walk_strategy(),
    )
        .prop_map(|(entries, block_size, exact_filter, walk)| TableCase { entries, block_size, exact_filter, walk })
}

fn guarded(case: &TableCase, c13: bool, c14: bool) -> Result<TStats, String> {
    let c = case.clone();
    match run_guarded("table-case", move || run_table_case(&c, c13, c14)) {
        Guarded::Done(r) => r,
        Guarded::Panicked(m) => Err(format!("panic: {m}")),
        Guarded::Hung(m) => Err(format!("a table call did not return: {m}")),
    }
}

/// C14(a): policy level. Returns Err(description) on a false negative.
pub fn policy_case(keys: &[Vec<u8>], bits: usize) -> Result<(), String> {
    policy_case_rw(keys, bits, bits)
}

/// The filter is created by a policy with `bits` and queried by one with `reader_bits`: filters are
/// stored in table files under a name that does not depend on bits_per_key (and record their own
/// probe count), so a table written under one setting must stay readable under another.
pub fn policy_case_rw(keys: &[Vec<u8>], bits: usize, reader_bits: usize) -> Result<(), String> {
    let w = BloomFilterPolicy::new(bits);
    let p = BloomFilterPolicy::new(reader_bits);
    let f = w.create_filter(keys);
    for k in keys {
        match p.key_may_match(k, &f) {
            Ok(true) => {}
            Ok(false) => return Err(format!("filter built from {} keys with bits_per_key={bits} (queried by a policy with bits_per_key={reader_bits}) answers 'no match' for member {}", keys.len(), hex(k))),
            Err(e) => return Err(format!("filter built from {} keys with bits_per_key={bits} cannot be queried for member {}: {e}", keys.len(), hex(k))),
        }
    }
    Ok(())
}

#[derive(Clone, Debug, Serialize, Deserialize)]
pub struct PolicyCase {
    pub keys: Vec<crate::checks::corrupt::HexBytes>,
    pub bits: usize,
    #[serde(default)]
    pub reader_bits: Option<usize>,
}

/// C14(c): a synthetic table layout given to the filter block builder and reader directly (through
/// the guarded wrapper `raindb::verif::filter_block_roundtrip`): block i occupies `sizes[i]` bytes of
/// the file (trailer included) and stores `nkeys[i]` user keys. Reaches layouts that no generated
/// table can have in a test: blocks of many filter ranges, offsets beyond 4 GiB.
#[derive(Clone, Debug, Serialize, Deserialize, PartialEq, Eq, Hash)]
pub struct LayoutCase {
    pub sizes: Vec<u64>,
    pub nkeys: Vec<u8>,
    pub exact: bool,
    pub bits: usize,
}

pub fn run_layout_case(case: &LayoutCase) -> Result<Vec<&'static str>, String> {
    let policy: Arc<dyn FilterPolicy> = if case.exact { Arc::new(ExactSetPolicy) } else { Arc::new(BloomFilterPolicy::new(case.bits.clamp(1, 64))) };
    let mut blocks: Vec<(u64, Vec<Vec<u8>>)> = vec![];
    let mut off = 0u64;
    for (i, sz) in case.sizes.iter().enumerate() {
        let n = (*case.nkeys.get(i).unwrap_or(&1)).clamp(1, 6);
        let keys: Vec<Vec<u8>> = (0..n).map(|j| if i % 7 == 3 && j == 0 { vec![] } else { format!("b{i}k{j}").into_bytes() }).collect();
        blocks.push((off, keys));
        off = off.saturating_add((*sz).max(1));
    }
    let answers = raindb::verif::filter_block_roundtrip(policy, &blocks).map_err(|e| format!("the filter block written for a layout of {} blocks cannot be read back: {e}", blocks.len()))?;
    for (bi, (offset, keys)) in blocks.iter().enumerate() {
        for (ki, k) in keys.iter().enumerate() {
            if !answers[bi][ki] {
                return Err(format!(
                    "filter block answers 'no match' for key {} stored in data block {bi} at offset {offset} (layout of {} blocks, {} policy)",
                    hex(k),
                    blocks.len(),
                    if case.exact { "exact-set" } else { "bloom" }
                ));
            }
        }
    }
    let mut classes = vec![];
    let ranges: BTreeSet<u64> = blocks.iter().map(|(o, _)| o >> 11).collect();
    if ranges.len() < blocks.len() {
        classes.push("layout_blocks_sharing_a_filter_range");
    }
    if blocks.windows(2).any(|w| (w[1].0 >> 11) > (w[0].0 >> 11) + 1) {
        classes.push("layout_block_spanning_several_filter_ranges");
    }
    if blocks.iter().any(|(o, _)| *o >= 1 << 32) {
        classes.push("layout_block_offset_beyond_4GiB");
    }
    if blocks.iter().any(|(o, _)| *o >= 1 << 31 && *o < 1 << 32) {
        classes.push("layout_block_offset_between_2GiB_and_4GiB");
    }
    Ok(classes)
}

fn layout_strategy(huge_permille: u32) -> impl Strategy<Value = LayoutCase> {
    let size = prop_oneof![
        40 => 1u64..300,
        20 => 1990u64..2110,
        10 => (1u64..40, 0u64..11).prop_map(|(k, d)| k * 2048 + d - 5),
        10 => 300u64..70_000,
        2 => 1_000_000u64..40_000_000,
    ];
    let huge = prop_oneof![
        2 => (0u64..4200).prop_map(|d| (1u64 << 32) - 2100 + d),
        1 => (1u64 << 31)..(5u64 << 30),
        1 => (0u64..4200).prop_map(|d| (1u64 << 31) - 2100 + d),
    ];
    (
        prop::collection::vec((size, 1u8..5), 1..40),
        prop::option::weighted(huge_permille as f64 / 1000.0, (huge, 0usize..40)),
        any::<bool>(),
        1usize..=64,
    )
        .prop_map(|(blocks, huge, exact, bits)| {
            let mut sizes: Vec<u64> = blocks.iter().map(|b| b.0).collect();
            let nkeys: Vec<u8> = blocks.iter().map(|b| b.1).collect();
            if let Some((h, at)) = huge {
                let at = at.min(sizes.len() - 1);
                sizes[at] = h;
            }
            LayoutCase { sizes, nkeys, exact, bits }
        })
}

pub fn replay_body(id: &str, case: &TableCase, msg: &str) -> Value {
    json!({"property": id, "engine": "tablefmt", "case": case, "message": msg})
}

pub fn worker(ctx: &WorkerCtx) -> WorkerResult {
    let id: &'static str = if ctx.id == "C13" { "C13" } else { "C14" };
    let (c13, c14) = (id == "C13", id == "C14");
    let cases = match ctx.tier {
        Tier::Quick => 100_000u64,
        Tier::Thorough => 400_000,
    };
    let cases = std::env::var("VERIF_CASES").ok().and_then(|s| s.parse().ok()).unwrap_or(cases);
    let mut r0 = WorkerResult::default();
    if c14 {
        // policy level: exhaustive small family (lengths 0..=9 x bits 1..=64), split over workers
        let mut fam = 0u64;
        for len in 0..=9usize {
            for bits in 1..=64usize {
                if (len * 64 + bits) % ctx.workers != ctx.worker {
                    continue;
                }
                let keys: Vec<Vec<u8>> = (0..=len).map(|l| (0..l).map(|i| (i * 37 + len) as u8).collect()).collect();
                fam += 1;
                r0.evaluations += 1;
                if let Err(e) = policy_case(&keys, bits) {
                    let pc = PolicyCase { keys: keys.into_iter().map(crate::checks::corrupt::HexBytes).collect(), bits, reader_bits: None };
                    let body = json!({"property": "C14", "engine": "filterpolicy", "case": pc, "message": e});
                    let path = write_replay("C14", ctx.seed, ctx.worker, 1, &body);
                    r0.violations.push(ViolationRec { replay: path, message: e });
                    return r0;
                }
                r0.nontrivial_hashes.push(hash_json(&(len, bits)));
                if r0.samples.is_empty() {
                    r0.samples.push(json!({"policy_family_member": {"key_lengths": format!("0..={len}"), "bits_per_key": bits}}));
                }
            }
        }
        r0.classes.insert("policy_length_x_bits_family".into(), fam);
        // generated key sets
        let res = RefCell::new(r0);
        let failed = RefCell::new(false);
        let mut runner = TestRunner::new(Config {
            cases: ctx.share(cases) as u32,
            rng_seed: RngSeed::Fixed(ctx.derived_seed(141)),
            failure_persistence: None,
            max_shrink_iters: 2000,
            ..Config::default()
        });
        let key = || prop_oneof![prop::collection::vec(any::<u8>(), 0..12), select(key_pool())];
        let strat = (
            prop_oneof![
                3 => prop::collection::vec(key(), 0usize..40),
                1 => prop::collection::vec(key(), 40usize..3000),
            ],
            1usize..=64,
            any::<bool>(),
            prop::option::weighted(0.3, 1usize..=64),
        );
        let out = runner.run(&strat, |(mut keys, bits, dup, reader)| {
            if dup && !keys.is_empty() {
                let k = keys[0].clone();
                keys.push(k);
            }
            let counting = !*failed.borrow();
            let mut r = res.borrow_mut();
            if counting {
                r.evaluations += 1;
            }
            match policy_case_rw(&keys, bits, reader.unwrap_or(bits)) {
                Ok(()) => {
                    if counting && reader.is_some() {
                        r.bump("policy_filter_queried_with_another_bits_per_key");
                    }
                    if counting && !keys.is_empty() {
                        r.nontrivial_hashes.push(hash_json(&(&keys, bits)));
                        r.bump("policy_generated_key_sets");
                        if keys.len() >= 1000 {
                            r.bump("policy_key_sets_of_1000_or_more");
                        }
                    }
                    Ok(())
                }
                Err(e) => {
                    *failed.borrow_mut() = true;
                    Err(TestCaseError::fail(e))
                }
            }
        });
        r0 = res.into_inner();
        if let Err(TestError::Fail(reason, (keys, bits, _, reader))) = out {
            let msg = reason.message().to_string();
            let pc = PolicyCase { keys: keys.into_iter().map(crate::checks::corrupt::HexBytes).collect(), bits, reader_bits: reader };
            let body = json!({"property": "C14", "engine": "filterpolicy", "case": pc, "message": msg});
            let path = write_replay("C14", ctx.seed, ctx.worker, 2, &body);
            r0.violations.push(ViolationRec { replay: path, message: msg });
            return r0;
        }
        // (c) synthetic layouts straight into the filter block builder / reader
        let res = RefCell::new(r0);
        let failed = RefCell::new(false);
        let (n_layout, huge_permille) = match ctx.tier {
            Tier::Quick => (cases / 4, 8),
            Tier::Thorough => (cases / 4, 20),
        };
        let mut runner = TestRunner::new(Config {
            cases: ctx.share(n_layout) as u32,
            rng_seed: RngSeed::Fixed(ctx.derived_seed(142)),
            failure_persistence: None,
            max_shrink_iters: 400,
            ..Config::default()
        });
        let out = runner.run(&layout_strategy(huge_permille), |lc| {
            let counting = !*failed.borrow();
            let mut r = res.borrow_mut();
            if counting {
                r.evaluations += 1;
            }
            match run_layout_case(&lc) {
                Ok(classes) => {
                    if counting {
                        if !classes.is_empty() {
                            r.nontrivial_hashes.push(hash_json(&lc));
                        }
                        r.bump("filter_block_layout_cases");
                        for c in classes {
                            r.bump(c);
                        }
                        if r.samples.len() < 2 && lc.sizes.len() <= 12 {
                            r.samples.push(json!({"filter_block_layout": serde_json::to_value(&lc).unwrap()}));
                        }
                    }
                    Ok(())
                }
                Err(e) => {
                    *failed.borrow_mut() = true;
                    Err(TestCaseError::fail(e))
                }
            }
        });
        r0 = res.into_inner();
        if let Err(TestError::Fail(reason, lc)) = out {
            let msg = reason.message().to_string();
            let body = json!({"property": "C14", "engine": "filterlayout", "case": lc, "message": msg});
            let path = write_replay("C14", ctx.seed, ctx.worker, 3, &body);
            r0.violations.push(ViolationRec { replay: path, message: msg });
            return r0;
        }
    }
    let res = RefCell::new(r0);
    let failed = RefCell::new(false);
    let mut runner = TestRunner::new(Config {
        cases: ctx.share(cases) as u32,
        rng_seed: RngSeed::Fixed(ctx.derived_seed(13)),
        failure_persistence: None,
        max_shrink_iters: 4000,
        ..Config::default()
    });
    let outcome = runner.run(&case_strategy(), |case| {
        let out = guarded(&case, c13, c14);
        let counting = !*failed.borrow();
        let mut r = res.borrow_mut();
        if counting {
            r.evaluations += 1;
        }
        match out {
            Ok(st) => {
                if counting {
                    for c in st.classes {
                        r.bump(c);
                    }
                    r.bump(if case.exact_filter { "exact_set_policy" } else { "bloom_policy" });
                    let nt = if c13 { st.nontrivial13 } else { st.nontrivial14 };
                    if nt {
                        r.nontrivial_hashes.push(hash_json(&case));
                    }
                    if nt || r.samples.len() < 2 {
                        if r.samples.len() < 3 {
                            let mut v = serde_json::to_value(&case).unwrap();
                            if let Some(e) = v.get_mut("entries").and_then(|e| e.as_array_mut()) {
                                let n = e.len();
                                e.truncate(12);
                                e.push(json!(format!("... {} entries in total", n)));
                            }
                            r.samples.push(v);
                        }
                    }
                }
                Ok(())
            }
            Err(e) => {
                *failed.borrow_mut() = true;
                Err(TestCaseError::fail(e))
            }
        }
    });
    let mut r = res.into_inner();
    if let Err(TestError::Fail(reason, case)) = outcome {
        let msg = reason.message().to_string();
        let path = write_replay(id, ctx.seed, ctx.worker, 0, &replay_body(id, &case, &msg));
        r.violations.push(ViolationRec { replay: path, message: msg });
    }
    r
}

pub fn replay(v: &Value) -> Result<(), String> {
    let id = v["property"].as_str().unwrap_or("C13");
    if v["engine"] == "filterpolicy" {
        let pc: PolicyCase = serde_json::from_value(v["case"].clone()).map_err(|e| e.to_string())?;
        let keys: Vec<Vec<u8>> = pc.keys.into_iter().map(|k| k.0).collect();
        return policy_case_rw(&keys, pc.bits, pc.reader_bits.unwrap_or(pc.bits));
    }
    if v["engine"] == "filterlayout" {
        let lc: LayoutCase = serde_json::from_value(v["case"].clone()).map_err(|e| e.to_string())?;
        return run_layout_case(&lc).map(|_| ());
    }
    let case: TableCase = serde_json::from_value(v["case"].clone()).map_err(|e| e.to_string())?;
    guarded(&case, id == "C13", id == "C14").map(|_| ())
}
