//! Crash-point and torn-write enumeration over journalled workloads (C02, C16, C11 crash images).

use crate::case::*;
use crate::engine::{dir_exact, options, Model};
use crate::memfs::{JOp, MemFs};
use raindb::{Batch, RainDBError, RainDbIterator, ReadOptions, WriteOptions, DB};
use serde::{Deserialize, Serialize};
use std::sync::Arc;
use std::time::Duration;

/// A workload executed on a journalling filesystem.
pub struct Recorded {
    pub journal: Vec<JOp>,
    /// per write batch: (journal length at entry, journal length at return)
    pub spans: Vec<(usize, usize)>,
    /// states[i] = model after i write batches
    pub states: Vec<Model>,
    /// config in force at each journal position (changes at reopen): (journal length, cfg)
    pub cfgs: Vec<(usize, Cfg)>,
    /// write counter after the workload (fresh values continue from here)
    pub counter: u64,
}

fn apply_write(
    db: &DB,
    fs: &MemFs,
    rec: &mut Recorded,
    model: &mut Model,
    items: Vec<(Vec<u8>, Option<Vec<u8>>)>,
) -> Result<(), String> {
    let mut b = Batch::new();
    for (k, v) in &items {
        match v {
            Some(v) => {
                b.add_put(k.clone(), v.clone());
            }
            None => {
                b.add_delete(k.clone());
            }
        }
    }
    let entry = fs.journal_len();
    db.apply(WriteOptions::default(), b)
        .map_err(|e| format!("write failed in a fault-free workload: {e:?}"))?;
    let ret = fs.journal_len();
    for (k, v) in items {
        match v {
            Some(v) => {
                model.insert(k, v);
            }
            None => {
                model.remove(&k);
            }
        }
    }
    rec.spans.push((entry, ret));
    rec.states.push(model.clone());
    Ok(())
}

/// Run the write-only part of a case on a journalling MemFs.
pub fn record(case: &Case) -> Result<Recorded, String> {
    let fs = Arc::new(MemFs::new(true));
    let mut rec = Recorded {
        journal: vec![],
        spans: vec![],
        states: vec![Model::new()],
        cfgs: vec![(0, case.cfg)],
        counter: 0,
    };
    let mut model = Model::new();
    let mut cfg = case.cfg;
    let mut db = Some(DB::open(options(&fs, &cfg)).map_err(|e| format!("open failed: {e:?}"))?);
    let key = |s: Sel| case.universe[pick(s, case.universe.len())].clone();
    for op in &case.ops {
        let d = db.as_ref().unwrap();
        match op {
            Op::Put(s, v) => {
                rec.counter += 1;
                let val = make_value(rec.counter, *v);
                apply_write(d, &fs, &mut rec, &mut model, vec![(key(*s), Some(val))])?;
            }
            Op::Delete(s) => {
                apply_write(d, &fs, &mut rec, &mut model, vec![(key(*s), None)])?;
            }
            Op::Batch(items) => {
                let mut staged = vec![];
                for (s, v) in items {
                    match v {
                        Some(v) => {
                            rec.counter += 1;
                            staged.push((key(*s), Some(make_value(rec.counter, *v))));
                        }
                        None => staged.push((key(*s), None)),
                    }
                }
                apply_write(d, &fs, &mut rec, &mut model, staged)?;
            }
            Op::Fill { start, n, val } => {
                let base = pick(*start, case.universe.len());
                for i in 0..(*n as usize) {
                    let k = case.universe[(base + i) % case.universe.len()].clone();
                    rec.counter += 1;
                    let v = make_value(rec.counter, *val);
                    apply_write(d, &fs, &mut rec, &mut model, vec![(k, Some(v))])?;
                }
            }
            Op::Flush => d.compact_range(Some(RESERVED_LO)..Some(RESERVED_HI)),
            Op::Compact(lo, hi) => {
                let mut lo = lo.map(key);
                let mut hi = hi.map(key);
                if let (Some(a), Some(b)) = (&lo, &hi) {
                    if a > b {
                        std::mem::swap(&mut lo, &mut hi);
                    }
                }
                d.compact_range(lo.as_deref()..hi.as_deref());
            }
            Op::WaitIdle => {
                d.verif_wait_idle(Duration::from_secs(600));
            }
            Op::Reopen(c) => {
                db = None;
                cfg = *c;
                rec.cfgs.push((fs.journal_len(), cfg));
                db = Some(DB::open(options(&fs, &cfg)).map_err(|e| format!("reopen failed: {e:?}"))?);
            }
            _ => {}
        }
    }
    if let Some(d) = db.as_ref() {
        d.verif_wait_idle(Duration::from_secs(600));
    }
    drop(db);
    rec.journal = fs.journal();
    Ok(rec)
}

impl Recorded {
    /// Number of batches acknowledged once the first `k` journal entries are durable.
    pub fn acked(&self, k: usize) -> usize {
        self.spans.iter().take_while(|(_, a)| *a <= k).count()
    }
    /// Acceptable states after a crash that kept the first `k` entries (`partial`: entry k is torn).
    pub fn acceptable(&self, k: usize, partial: bool) -> Vec<Model> {
        let a = self.acked(k);
        let mut out = vec![self.states[a].clone()];
        if a < self.spans.len() {
            let b = self.spans[a].0;
            if b < k || (partial && b <= k) {
                out.push(self.states[a + 1].clone());
            }
        }
        out
    }
    pub fn cfg_at(&self, k: usize) -> Cfg {
        let mut c = self.cfgs[0].1;
        for (pos, cfg) in &self.cfgs {
            if *pos <= k {
                c = *cfg;
            }
        }
        c
    }
}

fn scan(db: &DB) -> Result<Vec<(Vec<u8>, Vec<u8>)>, String> {
    let mut it = db
        .new_iterator(ReadOptions::default())
        .map_err(|e| format!("new_iterator: {e:?}"))?;
    it.seek_to_first().map_err(|e| format!("seek_to_first: {e:?}"))?;
    let mut out = vec![];
    while it.is_valid() {
        let (k, v) = it.current().unwrap();
        out.push((k.clone(), v.clone()));
        it.next();
    }
    if let Some(e) = it.take_error() {
        return Err(format!("iteration stopped with an error: {e:?}"));
    }
    Ok(out)
}

fn model_pairs(m: &Model) -> Vec<(Vec<u8>, Vec<u8>)> {
    m.iter().map(|(k, v)| (k.clone(), v.clone())).collect()
}

fn gets_match(db: &DB, universe: &[Vec<u8>], m: &Model) -> Result<(), String> {
    for k in universe {
        match (db.get(ReadOptions::default(), k), m.get(k)) {
            (Ok(v), Some(w)) if &v == w => {}
            (Err(RainDBError::KeyNotFound), None) => {}
            (g, w) => {
                return Err(format!(
                    "get({}) = {:?} but expected {:?}",
                    hex(k),
                    g.map(|v| hex(&v)),
                    w.map(|v| hex(v))
                ))
            }
        }
    }
    Ok(())
}

#[derive(Clone, Debug, Serialize, Deserialize)]
pub struct PostPlan {
    /// lengths of the values written after recovery (fresh keys), e.g. [20] or [10, 40000, 0]
    pub writes: Vec<u32>,
    /// reuse_log_files for the recovery open and for the final reopen
    pub reuse1: bool,
    pub reuse2: bool,
    /// run the C11(b) directory check after recovery
    pub dircheck: bool,
}

#[derive(Default, Debug, Clone)]
pub struct PointInfo {
    pub recovered_inflight: bool,
    pub wal_reused: bool,
}

/// Recover `img` and check it: open Ok; contents equal one of `accept`; further writes succeed and
/// survive a clean reopen. Returns Err(description) on violation.
pub fn check_recovery(
    img: Arc<MemFs>,
    base_cfg: Cfg,
    accept: &[Model],
    universe: &[Vec<u8>],
    plan: &PostPlan,
    counter0: u64,
) -> Result<PointInfo, String> {
    let mut info = PointInfo::default();
    let cfg1 = Cfg { reuse: plan.reuse1, ..base_cfg };
    let wal_before: Vec<String> = img.file_names().into_iter().filter(|p| p.contains("/wal/")).collect();
    let db = DB::open(options(&img, &cfg1)).map_err(|e| format!("open after the crash failed: {e:?}"))?;
    if plan.dircheck {
        // Leftovers of the crash (orphan tables, temp files, superseded manifests and logs) are
        // reclaimed by the open itself and the compactions it schedules: nothing has been read yet,
        // so no version is pinned and no further reclamation opportunity is needed.
        db.verif_wait_idle(Duration::from_secs(600));
        dir_exact(&db, &img).map_err(|e| format!("after recovery and quiescence (before any read): {e}"))?;
    }
    let got = scan(&db).map_err(|e| format!("scan after recovery failed: {e}"))?;
    let mut matched: Option<usize> = None;
    for (i, m) in accept.iter().enumerate() {
        if got == model_pairs(m) {
            matched = Some(i);
            break;
        }
    }
    let Some(mi) = matched else {
        let a = model_pairs(&accept[0]);
        return Err(format!(
            "recovered contents match neither the acknowledged state nor acknowledged+in-flight batch: recovered {} pairs, acknowledged state has {}; {}",
            got.len(),
            a.len(),
            first_diff(&got, &a)
        ));
    };
    info.recovered_inflight = mi == 1;
    gets_match(&db, universe, &accept[mi]).map_err(|e| format!("after recovery: {e}"))?;
    let mut model = accept[mi].clone();
    if plan.dircheck {
        // The scan above pinned a version while a compaction scheduled by the open may have run;
        // files are reclaimed at the next flush/compaction (lazy by design), so give the database
        // that one opportunity after everything has been released.
        db.verif_wait_idle(Duration::from_secs(600));
        db.compact_range(Some(RESERVED_LO)..Some(RESERVED_HI));
        db.verif_wait_idle(Duration::from_secs(600));
        dir_exact(&db, &img).map_err(|e| format!("after recovery and quiescence: {e}"))?;
    }
    let st = db.verif_state();
    info.wal_reused = wal_before.iter().any(|p| p.ends_with(&format!("wal-{}.log", st.db_wal_number)));
    // the recovered database is fully usable
    let mut counter = counter0 + 1_000_000;
    for (i, len) in plan.writes.iter().enumerate() {
        counter += 1;
        let k = format!("~fresh{i}").into_bytes();
        let v = make_value(counter, Val { len: *len, compressible: false });
        db.put(WriteOptions::default(), k.clone(), v.clone())
            .map_err(|e| format!("write after recovery failed: {e:?}"))?;
        model.insert(k, v);
    }
    drop(db);
    let cfg2 = Cfg { reuse: plan.reuse2, ..base_cfg };
    let db = DB::open(options(&img, &cfg2))
        .map_err(|e| format!("clean reopen after post-recovery writes failed: {e:?}"))?;
    let got2 = scan(&db).map_err(|e| format!("scan after reopen failed: {e}"))?;
    let want2 = model_pairs(&model);
    if got2 != want2 {
        return Err(format!(
            "after recovery, {} further acknowledged writes and a clean reopen the contents differ: {}",
            plan.writes.len(),
            first_diff(&got2, &want2)
        ));
    }
    let mut uni: Vec<Vec<u8>> = universe.to_vec();
    for i in 0..plan.writes.len() {
        uni.push(format!("~fresh{i}").into_bytes());
    }
    gets_match(&db, &uni, &model).map_err(|e| format!("after the clean reopen: {e}"))?;
    drop(db);
    Ok(info)
}

fn first_diff(a: &[(Vec<u8>, Vec<u8>)], b: &[(Vec<u8>, Vec<u8>)]) -> String {
    use std::collections::BTreeMap;
    let ma: BTreeMap<_, _> = a.iter().cloned().collect();
    let mb: BTreeMap<_, _> = b.iter().cloned().collect();
    let mut out = vec![];
    for (k, v) in &ma {
        match mb.get(k) {
            None => out.push(format!("{} present with {} but should be absent", hex(k), hex(v))),
            Some(w) if w != v => out.push(format!("{} = {} but should be {}", hex(k), hex(v), hex(w))),
            _ => {}
        }
    }
    for (k, v) in &mb {
        if !ma.contains_key(k) {
            out.push(format!("{} missing (should be {})", hex(k), hex(v)));
        }
    }
    out.truncate(5);
    out.join("; ")
}

/// Path of the file an append goes to.
pub fn append_target(journal: &[JOp], idx: usize) -> Option<String> {
    if let JOp::Append { id, .. } = &journal[idx] {
        for op in journal[..idx].iter().rev() {
            if let JOp::Create { path, id: cid } = op {
                if cid == id {
                    return Some(path.clone());
                }
            }
        }
    }
    None
}
