//! Crash-point and torn-write enumeration over journalled workloads (C02, C16, C11 crash images).

use crate::case::*;
use crate::engine::{dir_exact, options, Model};
use crate::memfs::{JOp, MemFs};
use raindb::{Batch, RainDBError, RainDbIterator, ReadOptions, WriteOptions, DB};
use serde::{Deserialize, Serialize};
use std::sync::Arc;
use std::time::Duration;

/// A workload executed on a journalling filesystem.
pub struct Recorded {
    pub journal: Vec<JOp>,
    /// per write batch: (journal length at entry, journal length at return)
    pub spans: Vec<(usize, usize)>,
    /// states[i] = model after i write batches
    pub states: Vec<Model>,
    /// config in force at each journal position (changes at reopen): (journal length, cfg)
    pub cfgs: Vec<(usize, Cfg)>,
    /// write counter after the workload (fresh values continue from here)
    pub counter: u64,
    /// base of the per-level size limits the workload ran with (the recoveries use the same)
    pub level_base: u64,
    /// concurrent workloads only: per client thread its writes in program order as (journal length
    /// at entry, journal length at return, items). The threads write disjoint key groups.
    pub conc: Vec<Vec<(usize, usize, Items)>>,
    /// concurrent workloads only: at least one group commit merged the batches of several writers
    pub group_commit: bool,
}

pub type Items = Vec<(Vec<u8>, Option<Vec<u8>>)>;

fn apply_items(model: &mut Model, items: &Items) {
    for (k, v) in items {
        match v {
            Some(v) => {
                model.insert(k.clone(), v.clone());
            }
            None => {
                model.remove(k);
            }
        }
    }
}

fn apply_write(
    db: &DB,
    fs: &MemFs,
    rec: &mut Recorded,
    model: &mut Model,
    items: Vec<(Vec<u8>, Option<Vec<u8>>)>,
) -> Result<(), String> {
    let mut b = Batch::new();
    for (k, v) in &items {
        match v {
            Some(v) => {
                b.add_put(k.clone(), v.clone());
            }
            None => {
                b.add_delete(k.clone());
            }
        }
    }
    let entry = fs.journal_len();
    db.apply(WriteOptions::default(), b)
        .map_err(|e| format!("write failed in a fault-free workload: {e:?}"))?;
    let ret = fs.journal_len();
    for (k, v) in items {
        match v {
            Some(v) => {
                model.insert(k, v);
            }
            None => {
                model.remove(&k);
            }
        }
    }
    rec.spans.push((entry, ret));
    rec.states.push(model.clone());
    Ok(())
}

/// Run the write-only part of a case on a journalling MemFs.
pub fn record(case: &Case) -> Result<Recorded, String> {
    crate::engine::set_level_limits(crate::engine::level_code_for(&case.cfg));
    let fs = Arc::new(MemFs::new(true));
    let mut rec = Recorded {
        journal: vec![],
        spans: vec![],
        states: vec![Model::new()],
        cfgs: vec![(0, case.cfg)],
        counter: 0,
        level_base: crate::engine::level_code_for(&case.cfg),
        conc: vec![],
        group_commit: false,
    };
    let mut model = Model::new();
    let mut cfg = case.cfg;
    let mut db = Some(DB::open(options(&fs, &cfg)).map_err(|e| format!("open failed: {e:?}"))?);
    let key = |s: Sel| case.universe[pick(s, case.universe.len())].clone();
    for op in &case.ops {
        let d = db.as_ref().unwrap();
        match op {
            Op::Put(s, v) => {
                rec.counter += 1;
                let val = make_value(rec.counter, *v);
                apply_write(d, &fs, &mut rec, &mut model, vec![(key(*s), Some(val))])?;
            }
            Op::PutTail(s, r) => {
                let k = key(*s);
                let path = format!("db/wal/wal-{}.log", d.verif_state().db_wal_number);
                let size = fs.read_file(&path).map_or(0, |f| f.len() as u64);
                let len = tail_value_len(size, k.len(), *r).unwrap_or(40);
                rec.counter += 1;
                let val = make_value(rec.counter, Val { len, compressible: false });
                apply_write(d, &fs, &mut rec, &mut model, vec![(k, Some(val))])?;
            }
            Op::Delete(s) => {
                apply_write(d, &fs, &mut rec, &mut model, vec![(key(*s), None)])?;
            }
            Op::Batch(items) => {
                let mut staged = vec![];
                for (s, v) in items {
                    match v {
                        Some(v) => {
                            rec.counter += 1;
                            staged.push((key(*s), Some(make_value(rec.counter, *v))));
                        }
                        None => staged.push((key(*s), None)),
                    }
                }
                apply_write(d, &fs, &mut rec, &mut model, staged)?;
            }
            Op::Fill { start, n, val } => {
                let base = pick(*start, case.universe.len());
                for i in 0..(*n as usize) {
                    let k = case.universe[(base + i) % case.universe.len()].clone();
                    rec.counter += 1;
                    let v = make_value(rec.counter, *val);
                    apply_write(d, &fs, &mut rec, &mut model, vec![(k, Some(v))])?;
                }
            }
            Op::Flush => d.compact_range(Some(RESERVED_LO)..Some(RESERVED_HI)),
            Op::Compact(lo, hi) => {
                let mut lo = lo.map(key);
                let mut hi = hi.map(key);
                if let (Some(a), Some(b)) = (&lo, &hi) {
                    if a > b {
                        std::mem::swap(&mut lo, &mut hi);
                    }
                }
                d.compact_range(lo.as_deref()..hi.as_deref());
            }
            Op::WaitIdle => {
                d.verif_wait_idle(Duration::from_secs(600));
            }
            Op::Reopen(c) => {
                db = None;
                cfg = *c;
                rec.cfgs.push((fs.journal_len(), cfg));
                db = Some(DB::open(options(&fs, &cfg)).map_err(|e| format!("reopen failed: {e:?}"))?);
            }
            _ => {}
        }
    }
    if let Some(d) = db.as_ref() {
        d.verif_wait_idle(Duration::from_secs(600));
    }
    drop(db);
    rec.journal = fs.journal();
    Ok(rec)
}

impl Recorded {
    /// Number of batches acknowledged once the first `k` journal entries are durable.
    pub fn acked(&self, k: usize) -> usize {
        if !self.conc.is_empty() {
            return self.conc.iter().map(|t| t.iter().take_while(|(_, a, _)| *a <= k).count()).sum();
        }
        self.spans.iter().take_while(|(_, a)| *a <= k).count()
    }
    /// Acceptable states after a crash that kept the first `k` entries (`partial`: entry k is torn).
    pub fn acceptable(&self, k: usize, partial: bool) -> Vec<Model> {
        if !self.conc.is_empty() {
            return self.acceptable_conc(k, partial);
        }
        let a = self.acked(k);
        let mut out = vec![self.states[a].clone()];
        if a < self.spans.len() {
            let b = self.spans[a].0;
            if b < k || (partial && b <= k) {
                out.push(self.states[a + 1].clone());
            }
        }
        out
    }
    /// Concurrent workload: every thread contributes its acknowledged prefix; the write a thread had
    /// in flight (entered before the crash point, not yet returned) is there completely or not at
    /// all, independently per thread (the threads own disjoint keys, so the union is well defined
    /// whatever order the database gave the batches).
    fn acceptable_conc(&self, k: usize, partial: bool) -> Vec<Model> {
        let mut base = Model::new();
        let mut maybes: Vec<&Items> = vec![];
        for t in &self.conc {
            let a = t.iter().take_while(|(_, r, _)| *r <= k).count();
            for (_, _, items) in &t[..a] {
                apply_items(&mut base, items);
            }
            if let Some((b, _, items)) = t.get(a) {
                if *b < k || (partial && *b <= k) {
                    maybes.push(items);
                }
            }
        }
        let mut out: Vec<Model> = vec![];
        for mask in 0u32..(1 << maybes.len()) {
            let mut m = base.clone();
            for (i, items) in maybes.iter().enumerate() {
                if mask & (1 << i) != 0 {
                    apply_items(&mut m, items);
                }
            }
            if !out.contains(&m) {
                out.push(m);
            }
        }
        out
    }

    pub fn cfg_at(&self, k: usize) -> Cfg {
        let mut c = self.cfgs[0].1;
        for (pos, cfg) in &self.cfgs {
            if *pos <= k {
                c = *cfg;
            }
        }
        c
    }
}

/// Operations of one client thread of a concurrent crash workload (keys are indices into the
/// thread's own key group).
#[derive(Clone, Debug, Serialize, Deserialize, PartialEq, Eq, Hash)]
pub enum WOp {
    Put(u8, Val),
    Del(u8),
    Batch(Vec<(u8, Option<Val>)>),
    Flush,
}

/// 2-3 writer threads over disjoint key groups on one database, with schedule directives that hold
/// writers around the WAL append (so that group commits form) or the background thread.
#[derive(Clone, Debug, Serialize, Deserialize, PartialEq, Eq, Hash)]
pub struct ConcWl {
    pub cfg: Cfg,
    pub programs: Vec<Vec<WOp>>,
    pub directives: Vec<crate::sched::Directive>,
    pub sync_mask: u32,
}

pub const CONC_GROUP: u8 = 4;

pub fn conc_key(t: usize, j: u8) -> Vec<u8> {
    match (t, j % CONC_GROUP) {
        (0, 0) => vec![],
        (1, 0) => vec![0xff, 0xff],
        (t, j) => format!("w{t}-key{j}").into_bytes(),
    }
}

pub fn conc_universe(wl: &ConcWl) -> Vec<Vec<u8>> {
    let mut u = vec![];
    for t in 0..wl.programs.len() {
        for j in 0..CONC_GROUP {
            u.push(conc_key(t, j));
        }
    }
    u.sort();
    u
}

/// Run a concurrent workload on a journalling MemFs.
pub fn record_conc(wl: &ConcWl) -> Result<Recorded, String> {
    crate::engine::set_level_limits(crate::engine::level_code_for(&wl.cfg));
    use std::sync::atomic::Ordering;
    let fs = Arc::new(MemFs::new(true));
    let db = Arc::new(DB::open(options(&fs, &wl.cfg)).map_err(|e| format!("open failed: {e:?}"))?);
    let n = wl.programs.len();
    let st = crate::sched::SchedState::new(wl.directives.clone(), n);
    let g0 = raindb::verif::counter(raindb::verif::Counter::GroupCommitMulti);
    crate::sched::install(st.clone());
    let barrier = Arc::new(std::sync::Barrier::new(n));
    let mut handles = vec![];
    for (ti, prog) in wl.programs.iter().enumerate() {
        let (db, fs, st, barrier, prog, mask) = (db.clone(), fs.clone(), st.clone(), barrier.clone(), prog.clone(), wl.sync_mask);
        handles.push(
            std::thread::Builder::new()
                .name(format!("crash-client-{ti}"))
                .spawn(move || -> Result<Vec<(usize, usize, Items)>, String> {
                    crate::sched::set_role(ti as i32);
                    barrier.wait();
                    let mut out = vec![];
                    let mut r: Result<(), String> = Ok(());
                    for (oi, op) in prog.iter().enumerate() {
                        let id = |sub: u64| (ti as u64 + 1) * 1_000_000 + oi as u64 * 100 + sub;
                        let items: Items = match op {
                            WOp::Put(j, v) => vec![(conc_key(ti, *j), Some(make_value(id(0), *v)))],
                            WOp::Del(j) => vec![(conc_key(ti, *j), None)],
                            WOp::Batch(b) => b.iter().enumerate().map(|(i, (j, v))| (conc_key(ti, *j), v.map(|v| make_value(id(1 + i as u64), v)))).collect(),
                            WOp::Flush => {
                                db.compact_range(Some(RESERVED_LO)..Some(RESERVED_HI));
                                continue;
                            }
                        };
                        let mut b = Batch::new();
                        for (k, v) in &items {
                            match v {
                                Some(v) => {
                                    b.add_put(k.clone(), v.clone());
                                }
                                None => {
                                    b.add_delete(k.clone());
                                }
                            }
                        }
                        let wo = WriteOptions { synchronous: (mask >> ((5 * ti + oi) % 32)) & 1 == 1 };
                        let entry = fs.journal_len();
                        if let Err(e) = db.apply(wo, b) {
                            r = Err(format!("write failed in a fault-free workload: {e:?}"));
                            break;
                        }
                        let ret = fs.journal_len();
                        out.push((entry, ret, items));
                    }
                    st.done[ti].store(true, Ordering::SeqCst);
                    r.map(|_| out)
                })
                .unwrap(),
        );
    }
    let mut conc = vec![];
    let mut err: Option<String> = None;
    for (i, h) in handles.into_iter().enumerate() {
        match h.join() {
            Ok(Ok(v)) => conc.push(v),
            Ok(Err(e)) => {
                err = Some(e);
                conc.push(vec![]);
            }
            Err(_) => {
                st.done[i].store(true, Ordering::SeqCst);
                err = Some(format!("client thread {i} panicked inside a database call"));
                conc.push(vec![]);
            }
        }
    }
    crate::sched::uninstall();
    if let Some(e) = err {
        return Err(e);
    }
    db.verif_wait_idle(Duration::from_secs(600));
    let group_commit = raindb::verif::counter(raindb::verif::Counter::GroupCommitMulti) > g0;
    drop(db);
    let mut spans: Vec<(usize, usize)> = conc.iter().flatten().map(|(b, r, _)| (*b, *r)).collect();
    spans.sort_by_key(|s| s.1);
    Ok(Recorded {
        journal: fs.journal(),
        spans,
        states: vec![],
        cfgs: vec![(0, wl.cfg)],
        counter: 9_000_000,
        level_base: crate::engine::level_code_for(&wl.cfg),
        conc,
        group_commit,
    })
}

fn scan(db: &DB) -> Result<Vec<(Vec<u8>, Vec<u8>)>, String> {
    let mut it = db
        .new_iterator(ReadOptions::default())
        .map_err(|e| format!("new_iterator: {e:?}"))?;
    it.seek_to_first().map_err(|e| format!("seek_to_first: {e:?}"))?;
    let mut out = vec![];
    while it.is_valid() {
        let (k, v) = it.current().unwrap();
        out.push((k.clone(), v.clone()));
        it.next();
    }
    if let Some(e) = it.take_error() {
        return Err(format!("iteration stopped with an error: {e:?}"));
    }
    Ok(out)
}

fn model_pairs(m: &Model) -> Vec<(Vec<u8>, Vec<u8>)> {
    m.iter().map(|(k, v)| (k.clone(), v.clone())).collect()
}

fn gets_match(db: &DB, universe: &[Vec<u8>], m: &Model) -> Result<(), String> {
    for k in universe {
        match (db.get(ReadOptions::default(), k), m.get(k)) {
            (Ok(v), Some(w)) if &v == w => {}
            (Err(RainDBError::KeyNotFound), None) => {}
            (g, w) => {
                return Err(format!(
                    "get({}) = {:?} but expected {:?}",
                    hex(k),
                    g.map(|v| hex(&v)),
                    w.map(|v| hex(v))
                ))
            }
        }
    }
    Ok(())
}

#[derive(Clone, Debug, Serialize, Deserialize)]
pub struct PostPlan {
    /// lengths of the values written after recovery (fresh keys), e.g. [20] or [10, 40000, 0]
    pub writes: Vec<u32>,
    /// reuse_log_files for the recovery open and for the final reopen
    pub reuse1: bool,
    pub reuse2: bool,
    /// run the C11(b) directory check after recovery
    pub dircheck: bool,
}

#[derive(Default, Debug, Clone)]
pub struct PointInfo {
    pub recovered_inflight: bool,
    pub wal_reused: bool,
}

/// Recover `img` and check it: open Ok; contents equal one of `accept`; further writes succeed and
/// survive a clean reopen. Returns Err(description) on violation.
pub fn check_recovery(
    img: Arc<MemFs>,
    base_cfg: Cfg,
    accept: &[Model],
    universe: &[Vec<u8>],
    plan: &PostPlan,
    counter0: u64,
) -> Result<PointInfo, String> {
    let mut info = PointInfo::default();
    let cfg1 = Cfg { reuse: plan.reuse1, ..base_cfg };
    let wal_before: Vec<String> = img.file_names().into_iter().filter(|p| p.contains("/wal/")).collect();
    let db = DB::open(options(&img, &cfg1)).map_err(|e| format!("open after the crash failed: {e:?}"))?;
    if plan.dircheck {
        // Leftovers of the crash (orphan tables, temp files, superseded manifests and logs) are
        // reclaimed by the open itself and the compactions it schedules: nothing has been read yet,
        // so no version is pinned and no further reclamation opportunity is needed.
        db.verif_wait_idle(Duration::from_secs(600));
        dir_exact(&db, &img).map_err(|e| format!("after recovery and quiescence (before any read): {e}"))?;
    }
    let got = scan(&db).map_err(|e| format!("scan after recovery failed: {e}"))?;
    let mut matched: Option<usize> = None;
    for (i, m) in accept.iter().enumerate() {
        if got == model_pairs(m) {
            matched = Some(i);
            break;
        }
    }
    let Some(mi) = matched else {
        let a = model_pairs(&accept[0]);
        return Err(format!(
            "recovered contents match neither the acknowledged state nor acknowledged+in-flight batch: recovered {} pairs, acknowledged state has {}; {}",
            got.len(),
            a.len(),
            first_diff(&got, &a)
        ));
    };
    info.recovered_inflight = mi == 1;
    gets_match(&db, universe, &accept[mi]).map_err(|e| format!("after recovery: {e}"))?;
    let mut model = accept[mi].clone();
    if plan.dircheck {
        // The scan above pinned a version while a compaction scheduled by the open may have run;
        // files are reclaimed at the next flush/compaction (lazy by design), so give the database
        // that one opportunity after everything has been released.
        db.verif_wait_idle(Duration::from_secs(600));
        db.compact_range(Some(RESERVED_LO)..Some(RESERVED_HI));
        db.verif_wait_idle(Duration::from_secs(600));
        dir_exact(&db, &img).map_err(|e| format!("after recovery and quiescence: {e}"))?;
    }
    let st = db.verif_state();
    info.wal_reused = wal_before.iter().any(|p| p.ends_with(&format!("wal-{}.log", st.db_wal_number)));
    // the recovered database is fully usable
    let mut counter = counter0 + 1_000_000;
    for (i, len) in plan.writes.iter().enumerate() {
        counter += 1;
        let k = format!("~fresh{i}").into_bytes();
        let v = make_value(counter, Val { len: *len, compressible: false });
        db.put(WriteOptions::default(), k.clone(), v.clone())
            .map_err(|e| format!("write after recovery failed: {e:?}"))?;
        model.insert(k, v);
    }
    drop(db);
    let cfg2 = Cfg { reuse: plan.reuse2, ..base_cfg };
    let db = DB::open(options(&img, &cfg2))
        .map_err(|e| format!("clean reopen after post-recovery writes failed: {e:?}"))?;
    let got2 = scan(&db).map_err(|e| format!("scan after reopen failed: {e}"))?;
    let want2 = model_pairs(&model);
    if got2 != want2 {
        return Err(format!(
            "after recovery, {} further acknowledged writes and a clean reopen the contents differ: {}",
            plan.writes.len(),
            first_diff(&got2, &want2)
        ));
    }
    let mut uni: Vec<Vec<u8>> = universe.to_vec();
    for i in 0..plan.writes.len() {
        uni.push(format!("~fresh{i}").into_bytes());
    }
    gets_match(&db, &uni, &model).map_err(|e| format!("after the clean reopen: {e}"))?;
    drop(db);
    Ok(info)
}

fn first_diff(a: &[(Vec<u8>, Vec<u8>)], b: &[(Vec<u8>, Vec<u8>)]) -> String {
    use std::collections::BTreeMap;
    let ma: BTreeMap<_, _> = a.iter().cloned().collect();
    let mb: BTreeMap<_, _> = b.iter().cloned().collect();
    let mut out = vec![];
    for (k, v) in &ma {
        match mb.get(k) {
            None => out.push(format!("{} present with {} but should be absent", hex(k), hex(v))),
            Some(w) if w != v => out.push(format!("{} = {} but should be {}", hex(k), hex(v), hex(w))),
            _ => {}
        }
    }
    for (k, v) in &mb {
        if !ma.contains_key(k) {
            out.push(format!("{} missing (should be {})", hex(k), hex(v)));
        }
    }
    out.truncate(5);
    out.join("; ")
}

/// Path of the file an append goes to.
pub fn append_target(journal: &[JOp], idx: usize) -> Option<String> {
    if let JOp::Append { id, .. } = &journal[idx] {
        for op in journal[..idx].iter().rev() {
            if let JOp::Create { path, id: cid } = op {
                if cid == id {
                    return Some(path.clone());
                }
            }
        }
    }
    None
}
