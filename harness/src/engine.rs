//! Single-client history interpreter with the oracles of C01, C03, C04, C07, C10, C11.

use crate::case::*;
use crate::memfs::MemFs;
use raindb::db::DatabaseDescriptor;
use raindb::fs::FileSystem;
use raindb::verif::{Counter, VFile, VKey};
use raindb::{
    Batch, DbOptions, RainDBError, RainDbIterator, ReadOptions, Snapshot, WriteOptions, DB,
};
use serde::{Deserialize, Serialize};
use std::collections::{BTreeMap, BTreeSet};
use std::sync::Arc;
use std::time::Duration;

pub type Model = BTreeMap<Vec<u8>, Vec<u8>>;

#[derive(Clone, Copy, Debug, Default, Serialize, Deserialize)]
pub struct Oracles {
    /// C01: gets at the latest state equal the model; every call returns Ok
    pub latest: bool,
    /// C03: gets and scans at every live snapshot equal its frozen map and agree with each other
    pub snapshot: bool,
    /// C04 (and C03 for aged iterators): iterators behave as cursors over their frozen map
    pub cursor: bool,
    /// C07: dumps before/after flush/compaction are identical (and equal to the model)
    pub metamorphic: bool,
    /// C10: reported layout is well formed at quiescent moments
    pub layout: bool,
    /// C11: directory contents are exactly the needed files at quiescent moments
    pub dirlist: bool,
    /// Wait for background work after every operation (deterministic replay)
    pub sync_bg: bool,
    /// Allow the Stats descriptor (hangs on trees with the self-deadlock)
    pub allow_stats: bool,
    /// Run on raindb's own disk-backed filesystem (TmpFileSystem: real files in a fresh temporary
    /// directory) instead of the harness's in-memory filesystem
    #[serde(default)]
    pub disk: bool,
}

#[derive(Clone, Debug, Default, Serialize, Deserialize)]
pub struct Stats {
    pub steps: u64,
    pub classes: BTreeMap<String, u64>,
    /// Non-trivial by the rule of the check that ran the case
    pub nontrivial: bool,
}

impl Stats {
    pub fn bump(&mut self, k: &str) {
        *self.classes.entry(k.to_string()).or_insert(0) += 1;
    }
    pub fn has(&self, k: &str) -> bool {
        self.classes.get(k).copied().unwrap_or(0) > 0
    }
}

#[derive(Clone, Debug, Serialize, Deserialize)]
pub struct Failure {
    pub step: usize,
    pub what: String,
    /// Signature used to attribute a failure to a known finding
    pub signature: Option<String>,
}

pub fn options(fs: &Arc<MemFs>, cfg: &Cfg) -> DbOptions {
    let fsd: Arc<dyn FileSystem> = fs.clone();
    options_dyn(fsd, cfg)
}

/// Options over any filesystem. Built field by field: `DbOptions::default()` pre-allocates a hash
/// map for 8 Mi block-cache entries, which would dominate the cost of every tiny case. A fresh
/// cache per open also guarantees that no block read before a reopen/corruption is served again.
pub fn options_dyn(fs: Arc<dyn FileSystem>, cfg: &Cfg) -> DbOptions {
    DbOptions {
        filesystem_provider: fs,
        db_path: "db".to_string(),
        create_if_missing: true,
        error_if_exists: false,
        max_memtable_size: cfg.memtable,
        max_file_size: cfg.file,
        max_block_size: cfg.block,
        reuse_log_files: cfg.reuse,
        filter_policy: Arc::new(raindb::BloomFilterPolicy::new(bloom_bits(cfg))),
        block_cache: raindb::verif::new_block_cache(cache_capacity(cfg)),
    }
}

/// Block-cache capacity of a configuration: a third of the configurations get the smallest cache the
/// implementation accepts (2 entries), so that every block read evicts another block while iterators
/// and compactions still hold handles to evicted entries. A pure function of the configuration, so
/// that a case stays a plain value.
pub fn cache_capacity(cfg: &Cfg) -> usize {
    if (cfg.memtable / 4 + cfg.file as usize / 2 + cfg.block / 16) % 3 == 1 {
        2
    } else {
        1 << 14
    }
}

/// Base of the per-level size limits for a case (guarded hook `verif::set_level_base_bytes`; level 1
/// may hold 10x the base, each deeper level 10x more). The built-in 1 MiB makes levels >= 3
/// unreachable with generated amounts of data; with a base of 30 or 300 bytes, size compactions
/// cascade into levels 3-5 within a hundred operations. A tuning constant, like the ones varied in
/// benign/: every property must hold for any value. 0 = built-in. A pure function of the case's
/// initial configuration, constant for the whole case.
pub fn level_base_for(cfg: &Cfg) -> u64 {
    match (cfg.memtable / 100 + cfg.file as usize / 100 + cfg.block / 16) % 10 {
        0..=3 => 0,
        4..=6 => 300,
        _ => 30,
    }
}

/// Divisor of the tenfold level-to-level growth of the size limits (second guarded hook): half of the
/// cases with the smallest base use 5 (limits double from level to level: 300 B, 600 B, ... 9.6 kB at
/// level 6), so that the deepest level is reached with some ten kilobytes of data.
pub fn level_growth_divisor_for(cfg: &Cfg) -> u64 {
    if level_base_for(cfg) == 30 && (cfg.file / 100 + cfg.memtable as u64 / 100) % 2 == 0 {
        5
    } else {
        1
    }
}

/// Base and growth divisor packed into one number (recorded in crash replays).
pub fn level_code_for(cfg: &Cfg) -> u64 {
    level_base_for(cfg) | (level_growth_divisor_for(cfg) << 32)
}

pub fn set_level_limits(code: u64) {
    raindb::verif::set_level_base_bytes(code & 0xffff_ffff);
    raindb::verif::set_level_growth_divisor((code >> 32).max(1));
}

/// Bloom bits per key of a configuration (1, 10 or 24): re-drawn with the configuration at every
/// reopen, so tables written under one setting are read by a policy instance with another.
pub fn bloom_bits(cfg: &Cfg) -> usize {
    [10, 1, 24, 10][(cfg.memtable / 100 + cfg.block / 16 + cfg.reuse as usize) % 4]
}

struct IterState {
    it: Box<dyn RainDbIterator<Key = Vec<u8>, Error = RainDBError>>,
    frozen: Model,
    pos: Option<Vec<u8>>,
    /// state changes (writes/flushes/compactions) happened after creation
    aged: bool,
    reversals: u32,
    last_dir_fwd: Option<bool>,
}

pub struct Interp<'a> {
    case: &'a Case,
    pub fs: Arc<MemFs>,
    /// set for on-disk runs: the disk filesystem and its root directory (the database holds another
    /// reference to the filesystem, so the temporary directory is removed only after the database is gone)
    disk: Option<(Arc<dyn FileSystem>, std::path::PathBuf)>,
    // NOTE: field order matters for drop order: iterators, then snapshots, then the database
    iters: Vec<IterState>,
    snaps: Vec<(Snapshot, Model)>,
    db: Option<DB>,
    cfg: Cfg,
    pub model: Model,
    counter: u64,
    pub stats: Stats,
    o: Oracles,
    step: usize,
    c0: Vec<u64>,
    /// per key: (epoch of latest write, an older write exists from an earlier epoch)
    key_epochs: BTreeMap<Vec<u8>, (u64, bool)>,
    reopened_changed_cfg: bool,
    compactions_since_snapshot: Vec<u64>,
    /// C10: table files whose stored first/last entries were already compared (files are immutable)
    verified_tables: BTreeMap<u64, (VKey, VKey)>,
    /// read counter: every third read runs with fill_cache = false
    ro_tick: std::cell::Cell<u32>,
}

fn epoch() -> u64 {
    raindb::verif::counter(Counter::MemtableRotated) + raindb::verif::counter(Counter::MemtableFlushed)
}

fn is_missing_file(e: &RainDBError) -> bool {
    let s = format!("{:?}", e);
    s.contains("NotFound") || s.contains("not found") || s.contains("No such file")
}

type R<T> = Result<T, Failure>;

impl<'a> Interp<'a> {
    pub fn new(case: &'a Case, o: Oracles) -> Self {
        set_level_limits(level_code_for(&case.cfg));
        Interp {
            case,
            fs: Arc::new(MemFs::new(false)),
            disk: if o.disk {
                let t = raindb::fs::TmpFileSystem::new(None);
                let root = t.get_root_path();
                let fs: Arc<dyn FileSystem> = Arc::new(t);
                Some((fs, root))
            } else {
                None
            },
            iters: vec![],
            snaps: vec![],
            db: None,
            cfg: case.cfg,
            model: Model::new(),
            counter: 0,
            stats: Stats::default(),
            o,
            step: 0,
            c0: raindb::verif::counters(),
            key_epochs: BTreeMap::new(),
            reopened_changed_cfg: false,
            compactions_since_snapshot: vec![],
            verified_tables: BTreeMap::new(),
            ro_tick: std::cell::Cell::new(0),
        }
    }

    /// ReadOptions for the next read: fill_cache is false for every third read (blocks read that way
    /// must not enter the cache, and must be served correctly all the same).
    fn ro(&self, snapshot: Option<Snapshot>) -> ReadOptions {
        let t = self.ro_tick.get();
        self.ro_tick.set(t.wrapping_add(1));
        ReadOptions { fill_cache: t % 3 != 2, snapshot }
    }

    fn dbopts(&self) -> DbOptions {
        match &self.disk {
            Some((fs, _)) => options_dyn(fs.clone(), &self.cfg),
            None => options(&self.fs, &self.cfg),
        }
    }

    /// Names of all files below the database directory ("db/...", the LOCK file left out as on MemFs).
    fn file_names(&self) -> Vec<String> {
        match &self.disk {
            None => self.fs.file_names(),
            Some((_, root)) => {
                let mut out = vec![];
                let mut stack = vec![root.join("db")];
                while let Some(d) = stack.pop() {
                    let Ok(rd) = std::fs::read_dir(&d) else { continue };
                    for e in rd.flatten() {
                        let p = e.path();
                        if p.is_dir() {
                            stack.push(p);
                        } else if let Ok(rel) = p.strip_prefix(root) {
                            let name = rel.to_string_lossy().replace('\\', "/");
                            if name != "db/LOCK" {
                                out.push(name);
                            }
                        }
                    }
                }
                out.sort();
                out
            }
        }
    }

    fn fail<T>(&self, what: String) -> R<T> {
        Err(Failure {
            step: self.step,
            what,
            signature: None,
        })
    }

    fn db(&self) -> &DB {
        self.db.as_ref().unwrap()
    }

    fn key(&self, s: Sel) -> Vec<u8> {
        self.case.universe[pick(s, self.case.universe.len())].clone()
    }

    fn open(&mut self) -> R<()> {
        match DB::open(self.dbopts()) {
            Ok(db) => {
                self.db = Some(db);
                Ok(())
            }
            Err(e) => self.fail(format!("open failed: {e:?}")),
        }
    }

    fn wait_idle(&mut self) -> R<()> {
        if !self.db().verif_wait_idle(Duration::from_secs(600)) {
            return self.fail("verif_wait_idle timed out after 600s".into());
        }
        Ok(())
    }

    fn note_write(&mut self, k: &[u8]) {
        let e = epoch();
        let ent = self.key_epochs.entry(k.to_vec()).or_insert((e, false));
        if ent.0 != e {
            ent.1 = true;
            ent.0 = e;
        }
        for it in self.iters.iter_mut() {
            it.aged = true;
        }
    }

    fn write_err(&self, what: &str, e: RainDBError) -> Failure {
        Failure {
            step: self.step,
            what: format!("{what} returned Err({e:?}) in a fault-free run"),
            signature: Some("write-error".into()),
        }
    }

    fn check_get_latest(&mut self, k: &[u8]) -> R<()> {
        let got = self.db().get(self.ro(None), k);
        let want = self.model.get(k);
        if let Some((_, true)) = self.key_epochs.get(k) {
            self.stats.bump("read_of_key_with_older_persisted_version");
            self.stats.nontrivial |= self.o.latest;
        }
        if self.reopened_changed_cfg {
            self.stats.bump("read_after_reopen_with_changed_config");
            self.stats.nontrivial |= self.o.latest;
        }
        match (&got, want) {
            (Ok(v), Some(m)) if v == m => Ok(()),
            (Err(RainDBError::KeyNotFound), None) => Ok(()),
            (Err(e), _) if !matches!(e, RainDBError::KeyNotFound) && is_missing_file(e) => {
                Err(Failure {
                    step: self.step,
                    what: format!("get({}) failed on a missing file: {e:?}", hex(k)),
                    signature: Some("missing-file".into()),
                })
            }
            _ => self.fail(format!(
                "get({}) = {} but the latest committed write is {}",
                hex(k),
                show_res(&got),
                show_opt(want)
            )),
        }
    }

    fn sweep_latest(&mut self) -> R<()> {
        for i in 0..self.case.universe.len() {
            let k = self.case.universe[i].clone();
            self.check_get_latest(&k)?;
        }
        Ok(())
    }

    fn scan(&self, snap: Option<&Snapshot>) -> Result<Vec<(Vec<u8>, Vec<u8>)>, String> {
        let ro = self.ro(snap.cloned());
        let mut it = self
            .db()
            .new_iterator(ro)
            .map_err(|e| format!("new_iterator: {e:?}"))?;
        it.seek_to_first().map_err(|e| format!("seek_to_first: {e:?}"))?;
        let mut out = vec![];
        while it.is_valid() {
            let (k, v) = it.current().unwrap();
            out.push((k.clone(), v.clone()));
            it.next();
        }
        if let Some(e) = it.take_error() {
            return Err(format!("iteration stopped with an error: {e:?}"));
        }
        Ok(out)
    }

    fn gets(&self, snap: Option<&Snapshot>) -> Vec<Result<Option<Vec<u8>>, String>> {
        self.case
            .universe
            .iter()
            .map(|k| {
                let ro = self.ro(snap.cloned());
                match self.db().get(ro, k) {
                    Ok(v) => Ok(Some(v)),
                    Err(RainDBError::KeyNotFound) => Ok(None),
                    Err(e) => Err(format!("{e:?}")),
                }
            })
            .collect()
    }

    /// C03: every live snapshot still shows its frozen map through get and through a scan.
    fn check_snapshots(&mut self, when: &str) -> R<()> {
        if !self.o.snapshot {
            return Ok(());
        }
        for si in 0..self.snaps.len() {
            let (snap, frozen) = (&self.snaps[si].0, &self.snaps[si].1);
            let gets = self.gets(Some(snap));
            for (k, g) in self.case.universe.iter().zip(gets.iter()) {
                match g {
                    Ok(v) if v.as_ref() == frozen.get(k) => {}
                    other => {
                        return self.fail(format!(
                            "{when}: get({}) at snapshot #{si} = {:?} but the snapshot was taken with {}",
                            hex(k),
                            other.as_ref().map(|o| o.as_ref().map(|v| hex(v))),
                            show_opt(frozen.get(k))
                        ))
                    }
                }
            }
            let scan = match self.scan(Some(snap)) {
                Ok(s) => s,
                Err(e) => return self.fail(format!("{when}: scan at snapshot #{si} failed: {e}")),
            };
            let want: Vec<(Vec<u8>, Vec<u8>)> =
                frozen.iter().map(|(k, v)| (k.clone(), v.clone())).collect();
            if scan != want {
                return self.fail(format!(
                    "{when}: scan at snapshot #{si} differs from the frozen state: {}",
                    diff_pairs(&scan, &want)
                ));
            }
            // non-trivial: a key changed after the snapshot and a compaction ran in between
            let changed = self
                .case
                .universe
                .iter()
                .any(|k| frozen.get(k) != self.model.get(k));
            let comp_now = compactions_total();
            if changed && comp_now > self.compactions_since_snapshot[si] {
                self.stats.bump("snapshot_read_after_overwrite_and_compaction");
                self.stats.nontrivial = true;
            }
        }
        Ok(())
    }

    fn dump(&self) -> Result<Vec<(Vec<(Vec<u8>, Vec<u8>)>, Vec<Result<Option<Vec<u8>>, String>>)>, String> {
        let mut out = vec![(self.scan(None)?, self.gets(None))];
        for (s, _) in &self.snaps {
            out.push((self.scan(Some(s))?, self.gets(Some(s))));
        }
        Ok(out)
    }

    fn model_dump(&self) -> Vec<(Vec<(Vec<u8>, Vec<u8>)>, Vec<Result<Option<Vec<u8>>, String>>)> {
        let mk = |m: &Model| {
            (
                m.iter().map(|(k, v)| (k.clone(), v.clone())).collect::<Vec<_>>(),
                self.case
                    .universe
                    .iter()
                    .map(|k| Ok(m.get(k).cloned()))
                    .collect::<Vec<_>>(),
            )
        };
        let mut out = vec![mk(&self.model)];
        for (_, f) in &self.snaps {
            out.push(mk(f));
        }
        out
    }

    fn layout_sig(&self) -> Vec<(usize, u64)> {
        self.db().verif_layout().iter().map(|f| (f.level, f.number)).collect()
    }

    /// C07: run `f` (a flush/compaction) and require identical contents before and after.
    fn metamorphic<F: FnOnce(&mut Self) -> R<()>>(&mut self, name: &str, f: F) -> R<()> {
        if !self.o.metamorphic {
            return f(self);
        }
        let before = match self.dump() {
            Ok(d) => d,
            Err(e) => return self.fail(format!("dump before {name} failed: {e}")),
        };
        let sig0 = self.layout_sig();
        f(self)?;
        self.wait_idle()?;
        let sig1 = self.layout_sig();
        let after = match self.dump() {
            Ok(d) => d,
            Err(e) => return self.fail(format!("dump after {name} failed: {e}")),
        };
        if before != after {
            return self.fail(format!(
                "{name} changed the visible contents: {}",
                diff_dumps(&before, &after)
            ));
        }
        let md = self.model_dump();
        if after != md {
            return self.fail(format!(
                "contents after {name} differ from the model: {}",
                diff_dumps(&after, &md)
            ));
        }
        if sig0 != sig1 {
            self.stats.bump("file_set_changed_by_flush_or_compaction");
            // non-trivial: file set changed and a tombstone or overwritten key was involved
            if self.key_epochs.values().any(|(_, older)| *older) {
                self.stats.bump("file_set_changed_with_shadowed_versions");
                self.stats.nontrivial = true;
            }
        }
        Ok(())
    }

    /// C10: the reported layout is well formed and matches the files' contents.
    fn check_layout(&mut self, when: &str) -> R<()> {
        if !self.o.layout {
            return Ok(());
        }
        self.wait_idle()?;
        let layout = self.db().verif_layout();
        // descriptors agree with the structural accessor
        let sst = match self.db().get_descriptor(DatabaseDescriptor::SSTables) {
            Ok(s) => s,
            Err(e) => return self.fail(format!("{when}: SSTables descriptor failed: {e:?}")),
        };
        let expected = render_sstables(&layout);
        if sst != expected {
            // layout may have moved between the two calls only if background work ran; we are idle
            return self.fail(format!(
                "{when}: SSTables descriptor disagrees with the current version:\n{sst}\nvs\n{expected}"
            ));
        }
        for level in 0..7usize {
            let n = self
                .db()
                .get_descriptor(DatabaseDescriptor::NumFilesAtLevel(level))
                .map_err(|e| Failure {
                    step: self.step,
                    what: format!("NumFilesAtLevel({level}) failed: {e:?}"),
                    signature: None,
                })?;
            let want = layout.iter().filter(|f| f.level == level).count().to_string();
            if n != want {
                return self.fail(format!(
                    "{when}: NumFilesAtLevel({level}) = {n} but the layout lists {want} files"
                ));
            }
        }
        if let Err(e) = wellformed(&layout) {
            return self.fail(format!("{when}: {e}\nlayout: {}", show_layout(&layout)));
        }
        // bounds equal the first / last entry stored in the file
        for f in &layout {
            if let Some((s, l)) = self.verified_tables.get(&f.number) {
                if *s == f.smallest && *l == f.largest {
                    continue;
                }
            }
            let t = match raindb::verif::VTable::open(self.dbopts(), f.number) {
                Ok(t) => t,
                Err(e) => {
                    return self.fail(format!("{when}: listed table {} cannot be opened: {e}", f.number))
                }
            };
            let mut it = t.iter();
            let first = it.seek_to_first().ok().and_then(|_| it.current());
            let mut it2 = t.iter();
            let last = it2.seek_to_last().ok().and_then(|_| it2.current());
            match (first, last) {
                (Some((fk, _)), Some((lk, _))) => {
                    if fk != f.smallest || lk != f.largest {
                        return self.fail(format!(
                            "{when}: file {} (level {}) is recorded as [{} .. {}] but stores [{} .. {}]",
                            f.number,
                            f.level,
                            show_vkey(&f.smallest),
                            show_vkey(&f.largest),
                            show_vkey(&fk),
                            show_vkey(&lk)
                        ));
                    }
                    self.verified_tables.insert(f.number, (fk, lk));
                }
                _ => return self.fail(format!("{when}: listed table {} has no entries", f.number)),
            }
        }
        let multi = (1..7).any(|l| layout.iter().filter(|f| f.level == l).count() >= 2);
        if multi {
            self.stats.bump("layout_with_multi_file_level");
            self.stats.nontrivial = true;
        }
        if when.starts_with("after reopen") && !layout.is_empty() && !self.cfg.reuse {
            self.stats.bump("layout_after_reopen_with_new_manifest");
            self.stats.nontrivial = true;
        }
        Ok(())
    }

    /// C11(b): after everything is released and the database had one reclamation opportunity,
    /// the directory holds exactly the needed files.
    fn check_dirlist(&mut self, when: &str) -> R<()> {
        if !self.o.dirlist {
            return Ok(());
        }
        let pinned_before = self.db().verif_state().num_versions > 1;
        self.iters.clear();
        while let Some((s, _)) = self.snaps.pop() {
            self.db().release_snapshot(s);
        }
        self.compactions_since_snapshot.clear();
        self.db()
            .compact_range(Some(RESERVED_LO)..Some(RESERVED_HI));
        self.wait_idle()?;
        if self.db().verif_state().num_versions > 1 {
            // Nothing is held any more, yet an old version is still linked: make its files obsolete
            // so that a leaked version shows up as dead files on disk.
            self.stats.bump("version_still_linked_after_release");
            self.db().compact_range(None..None);
            self.db().compact_range(Some(RESERVED_LO)..Some(RESERVED_HI));
            self.wait_idle()?;
        }
        if let Err(e) = dir_exact_names(self.db(), self.file_names()) {
            return self.fail(format!("{when}: {e}"));
        }
        if pinned_before {
            self.stats.bump("dirlist_after_pinned_version");
            self.stats.nontrivial = true;
        }
        if delta(&self.c0, Counter::TrivialMove) > 0 {
            self.stats.bump("dirlist_after_trivial_move");
            self.stats.nontrivial = true;
        }
        Ok(())
    }

    fn cursor_check(&mut self, j: usize, what: &str) -> R<()> {
        let st = &self.iters[j];
        let valid = st.it.is_valid();
        match (&st.pos, valid) {
            (None, false) => Ok(()),
            (Some(k), true) => {
                let (ck, cv) = st.it.current().unwrap();
                let wv = &st.frozen[k];
                if ck != k || cv != wv {
                    let msg = format!(
                        "iterator #{j} after {what}: at ({}, {}) but a sorted map of the visible pairs is at ({}, {})",
                        hex(ck),
                        hex(cv),
                        hex(k),
                        hex(wv)
                    );
                    return self.fail(msg);
                }
                Ok(())
            }
            (None, true) => {
                let (ck, _) = st.it.current().unwrap();
                let msg = format!(
                    "iterator #{j} after {what}: valid at {} but the map position does not exist",
                    hex(ck)
                );
                self.fail(msg)
            }
            (Some(k), false) => {
                let msg = format!(
                    "iterator #{j} after {what}: invalid but the map position is {}",
                    hex(k)
                );
                self.fail(msg)
            }
        }
    }

    fn iter_op(&mut self, j: usize, cur: &Cur) -> R<()> {
        use std::ops::Bound::*;
        let what = format!("{cur:?}");
        {
            let universe = &self.case.universe;
            let st = &mut self.iters[j];
            let mut dir_fwd: Option<bool> = None;
            match cur {
                Cur::First => {
                    st.pos = st.frozen.keys().next().cloned();
                    if let Err(e) = st.it.seek_to_first() {
                        return Err(Failure { step: self.step, what: format!("seek_to_first failed: {e:?}"), signature: None });
                    }
                }
                Cur::Last => {
                    st.pos = st.frozen.keys().next_back().cloned();
                    if let Err(e) = st.it.seek_to_last() {
                        return Err(Failure { step: self.step, what: format!("seek_to_last failed: {e:?}"), signature: None });
                    }
                }
                Cur::Seek(s) => {
                    let t = universe[pick(*s, universe.len())].clone();
                    st.pos = st.frozen.range::<Vec<u8>, _>((Included(&t), Unbounded)).next().map(|(k, _)| k.clone());
                    if let Err(e) = st.it.seek(&t) {
                        return Err(Failure { step: self.step, what: format!("seek failed: {e:?}"), signature: None });
                    }
                }
                Cur::SeekRaw(t) => {
                    st.pos = st.frozen.range::<Vec<u8>, _>((Included(t), Unbounded)).next().map(|(k, _)| k.clone());
                    if let Err(e) = st.it.seek(t) {
                        return Err(Failure { step: self.step, what: format!("seek failed: {e:?}"), signature: None });
                    }
                }
                Cur::Next => {
                    let Some(p) = st.pos.clone() else { return Ok(()) };
                    dir_fwd = Some(true);
                    st.pos = st.frozen.range::<Vec<u8>, _>((Excluded(&p), Unbounded)).next().map(|(k, _)| k.clone());
                    let r = st.it.next().map(|(k, v)| (k.clone(), v.clone()));
                    let want = st.pos.as_ref().map(|k| (k.clone(), st.frozen[k].clone()));
                    if r != want {
                        return Err(Failure { step: self.step, what: format!(
                            "iterator #{j}: next() returned {:?} but the map's next pair is {:?}",
                            r.map(|(k, v)| (hex(&k), hex(&v))), want.map(|(k, v)| (hex(&k), hex(&v)))), signature: None });
                    }
                }
                Cur::Prev => {
                    let Some(p) = st.pos.clone() else { return Ok(()) };
                    dir_fwd = Some(false);
                    st.pos = st.frozen.range::<Vec<u8>, _>((Unbounded, Excluded(&p))).next_back().map(|(k, _)| k.clone());
                    let r = st.it.prev().map(|(k, v)| (k.clone(), v.clone()));
                    let want = st.pos.as_ref().map(|k| (k.clone(), st.frozen[k].clone()));
                    if r != want {
                        return Err(Failure { step: self.step, what: format!(
                            "iterator #{j}: prev() returned {:?} but the map's previous pair is {:?}",
                            r.map(|(k, v)| (hex(&k), hex(&v))), want.map(|(k, v)| (hex(&k), hex(&v)))), signature: None });
                    }
                }
            }
            if let Some(d) = dir_fwd {
                if st.last_dir_fwd.is_some() && st.last_dir_fwd != Some(d) {
                    st.reversals += 1;
                }
                st.last_dir_fwd = Some(d);
            } else {
                st.last_dir_fwd = None;
            }
        }
        self.cursor_check(j, &what)?;
        let st = &self.iters[j];
        if st.reversals > 0 {
            self.stats.bump("iterator_direction_reversal");
            let shadowed = self.key_epochs.values().any(|(_, o)| *o);
            let tables = self.db().verif_layout().len();
            if shadowed && tables >= 2 && self.o.cursor && !self.o.snapshot {
                self.stats.nontrivial = true;
                self.stats.bump("reversal_over_multi_source_shadowed_state");
            }
        }
        if st.aged {
            self.stats.bump("aged_iterator_step");
        }
        Ok(())
    }

    fn close(&mut self) -> R<()> {
        self.iters.clear();
        while let Some((s, _)) = self.snaps.pop() {
            if let Some(db) = self.db.as_ref() {
                db.release_snapshot(s);
            }
        }
        self.compactions_since_snapshot.clear();
        self.db = None;
        Ok(())
    }

    fn after_state_change(&mut self) {
        for it in self.iters.iter_mut() {
            it.aged = true;
        }
    }

    /// Size of the live write-ahead log (for `Op::PutTail`).
    fn wal_size(&self) -> u64 {
        let path = format!("db/wal/wal-{}.log", self.db().verif_state().db_wal_number);
        match &self.disk {
            None => self.fs.read_file(&path).map_or(0, |d| d.len() as u64),
            Some((_, root)) => std::fs::metadata(root.join(&path)).map_or(0, |m| m.len()),
        }
    }

    fn exec(&mut self, op: &Op) -> R<()> {
        match op {
            Op::PutTail(s, r) => {
                let klen = self.key(*s).len();
                let len = tail_value_len(self.wal_size(), klen, *r).unwrap_or(40);
                self.stats.bump("put_that_leaves_less_than_a_header_in_the_wal_block");
                return self.exec(&Op::Put(*s, Val { len, compressible: false }));
            }
            Op::Put(s, v) => {
                let k = self.key(*s);
                self.counter += 1;
                let val = make_value(self.counter, *v);
                if v.len > 32768 {
                    self.stats.bump("value_larger_than_wal_block");
                }
                self.db()
                    .put(WriteOptions::default(), k.clone(), val.clone())
                    .map_err(|e| self.write_err("put", e))?;
                self.note_write(&k);
                self.model.insert(k, val);
            }
            Op::Delete(s) => {
                let k = self.key(*s);
                self.db()
                    .delete(WriteOptions::default(), k.clone())
                    .map_err(|e| self.write_err("delete", e))?;
                self.note_write(&k);
                self.model.remove(&k);
                self.stats.bump("delete");
            }
            Op::Batch(items) => {
                let mut b = Batch::new();
                let mut staged: Vec<(Vec<u8>, Option<Vec<u8>>)> = vec![];
                for (s, v) in items {
                    let k = self.key(*s);
                    match v {
                        Some(v) => {
                            self.counter += 1;
                            let val = make_value(self.counter, *v);
                            b.add_put(k.clone(), val.clone());
                            staged.push((k, Some(val)));
                        }
                        None => {
                            b.add_delete(k.clone());
                            staged.push((k, None));
                        }
                    }
                }
                self.db()
                    .apply(WriteOptions::default(), b)
                    .map_err(|e| self.write_err("apply", e))?;
                for (k, v) in staged {
                    self.note_write(&k);
                    match v {
                        Some(v) => {
                            self.model.insert(k, v);
                        }
                        None => {
                            self.model.remove(&k);
                        }
                    }
                }
                self.stats.bump("batch");
            }
            Op::Get(s) => {
                let k = self.key(*s);
                if self.o.latest || self.o.dirlist {
                    self.check_get_latest(&k)?;
                } else {
                    let _ = self.db().get(ReadOptions::default(), &k);
                }
            }
            Op::GetAll => {
                if self.o.latest {
                    self.sweep_latest()?;
                }
            }
            Op::Flush => {
                self.metamorphic("flush", |me| {
                    me.db().compact_range(Some(RESERVED_LO)..Some(RESERVED_HI));
                    Ok(())
                })?;
                self.after_state_change();
                self.stats.bump("flush");
                self.check_snapshots("after flush")?;
                self.check_layout("after flush")?;
            }
            Op::Compact(lo, hi) => {
                let mut lo = lo.map(|s| self.key(s));
                let mut hi = hi.map(|s| self.key(s));
                if let (Some(a), Some(b)) = (&lo, &hi) {
                    if a > b {
                        std::mem::swap(&mut lo, &mut hi);
                    }
                }
                self.metamorphic("compact_range", |me| {
                    me.db().compact_range(lo.as_deref()..hi.as_deref());
                    Ok(())
                })?;
                self.after_state_change();
                self.stats.bump("compact_range");
                self.check_snapshots("after compact_range")?;
                self.check_layout("after compact_range")?;
            }
            Op::Fill { start, n, val } => {
                let base = pick(*start, self.case.universe.len());
                for i in 0..(*n as usize) {
                    let k = self.case.universe[(base + i) % self.case.universe.len()].clone();
                    self.counter += 1;
                    let v = make_value(self.counter, *val);
                    self.db()
                        .put(WriteOptions::default(), k.clone(), v.clone())
                        .map_err(|e| self.write_err("put", e))?;
                    self.note_write(&k);
                    self.model.insert(k, v);
                }
                self.stats.bump("fill");
                self.check_snapshots("after fill")?;
            }
            Op::Hammer(s, n) => {
                let k = self.key(*s);
                let count = 101 + (*n as usize % 30);
                self.metamorphic("repeated gets (seek-triggered compaction)", |me| {
                    for _ in 0..count {
                        if me.o.latest || me.o.dirlist {
                            me.check_get_latest(&k)?;
                        } else {
                            let _ = me.db().get(ReadOptions::default(), &k);
                        }
                    }
                    Ok(())
                })?;
                self.after_state_change();
                self.stats.bump("hammer");
                self.check_snapshots("after repeated gets")?;
            }
            Op::IterHammer(s, n) => {
                let k = self.key(*s);
                let count = 101 + (*n as usize % 30);
                let want = self.model.range(k.clone()..).next().map(|(a, b)| (a.clone(), b.clone()));
                let compare = self.o.latest || self.o.cursor || self.o.snapshot;
                self.metamorphic("seeks of fresh iterators (read sampling, seek-triggered compaction)", |me| {
                    for _ in 0..count {
                        let mut it = match me.db().new_iterator(ReadOptions::default()) {
                            Ok(it) => it,
                            Err(e) => return me.fail(format!("new_iterator failed: {e:?}")),
                        };
                        if let Err(e) = it.seek(&k) {
                            return me.fail(format!("seek of a fresh iterator failed: {e:?}"));
                        }
                        let got = if it.is_valid() { it.current().map(|(a, b)| (a.clone(), b.clone())) } else { None };
                        if compare && got != want {
                            return me.fail(format!(
                                "a fresh iterator after seek({}) is at {:?} but the first committed pair at or after it is {:?}",
                                hex(&k),
                                got.as_ref().map(|(a, b)| (hex(a), hex(b))),
                                want.as_ref().map(|(a, b)| (hex(a), hex(b)))
                            ));
                        }
                    }
                    Ok(())
                })?;
                self.after_state_change();
                self.stats.bump("iter_hammer");
                self.check_snapshots("after seeks of fresh iterators")?;
            }
            Op::Reopen(cfg) => {
                self.check_dirlist("before close")?;
                self.close()?;
                if *cfg != self.cfg {
                    self.reopened_changed_cfg = true;
                }
                self.cfg = *cfg;
                self.open()?;
                self.stats.bump("reopen");
                if self.o.latest {
                    self.sweep_latest()?;
                }
                self.check_layout("after reopen")?;
                if self.o.dirlist {
                    self.check_dirlist("after reopen")?;
                }
            }
            Op::Snap => {
                if self.snaps.len() < 4 {
                    let s = self.db().get_snapshot();
                    self.snaps.push((s, self.model.clone()));
                    self.compactions_since_snapshot.push(compactions_total());
                    self.stats.bump("snapshot");
                }
            }
            Op::Release(sel) => {
                if !self.snaps.is_empty() {
                    self.check_snapshots("before release")?;
                    let i = pick(*sel, self.snaps.len());
                    let (s, _) = self.snaps.remove(i);
                    self.compactions_since_snapshot.remove(i);
                    self.db().release_snapshot(s);
                }
            }
            Op::IterNew(at) => {
                if self.iters.len() < 3 {
                    let (ro, frozen) = match at {
                        Some(sel) if !self.snaps.is_empty() => {
                            let i = pick(*sel, self.snaps.len());
                            (self.ro(Some(self.snaps[i].0.clone())), self.snaps[i].1.clone())
                        }
                        _ => (self.ro(None), self.model.clone()),
                    };
                    match self.db().new_iterator(ro) {
                        Ok(it) => self.iters.push(IterState {
                            it: Box::new(it),
                            frozen,
                            pos: None,
                            aged: false,
                            reversals: 0,
                            last_dir_fwd: None,
                        }),
                        Err(e) => return self.fail(format!("new_iterator failed: {e:?}")),
                    }
                    self.stats.bump("iterator");
                }
            }
            Op::IterOp(sel, cur) => {
                if !self.iters.is_empty() {
                    let j = pick(*sel, self.iters.len());
                    if self.o.cursor {
                        self.iter_op(j, cur)?;
                    }
                }
            }
            Op::IterDrop(sel) => {
                if !self.iters.is_empty() {
                    let j = pick(*sel, self.iters.len());
                    self.iters.remove(j);
                }
            }
            Op::Descriptor(d) => {
                let (desc, expect_ok) = match d {
                    Desc::NumFiles(l) => (DatabaseDescriptor::NumFilesAtLevel(*l as usize), *l < 7),
                    Desc::SSTables => (DatabaseDescriptor::SSTables, true),
                    Desc::Stats => {
                        if !self.o.allow_stats {
                            return Ok(());
                        }
                        (DatabaseDescriptor::Stats, true)
                    }
                };
                if matches!(d, Desc::Stats) {
                    self.stats.bump("stats_descriptor");
                }
                let r = self.db().get_descriptor(desc);
                if r.is_ok() != expect_ok {
                    return self.fail(format!("get_descriptor({d:?}) returned {r:?}"));
                }
                self.stats.bump("descriptor");
            }
            Op::WaitIdle => {
                self.metamorphic("background compaction (wait idle)", |me| me.wait_idle())?;
                self.after_state_change();
                self.check_snapshots("after background work")?;
                self.check_layout("after background work")?;
            }
        }
        Ok(())
    }

    pub fn run(&mut self) -> R<()> {
        self.open()?;
        let ops = &self.case.ops;
        for (i, op) in ops.iter().enumerate() {
            self.step = i;
            let trace = std::env::var_os("VERIF_TRACE").is_some();
            if trace {
                eprintln!("TRACE step {i}: {op:?}");
            }
            let r = self.exec(op);
            if trace {
                if let Some(db) = self.db.as_ref() {
                    for f in db.verif_layout() {
                        eprintln!("TRACE    {}", show_layout(&[f]));
                    }
                }
            }
            r?;
            self.stats.steps += 1;
            if self.o.sync_bg {
                self.wait_idle()?;
            }
            let mutating = matches!(
                op,
                Op::Put(..) | Op::Delete(..) | Op::Batch(..) | Op::Fill { .. }
            );
            if self.o.latest && mutating && i % 5 == 4 {
                self.sweep_latest()?;
            }
        }
        self.step = ops.len();
        if self.o.latest {
            self.sweep_latest()?;
        }
        self.check_snapshots("at the end")?;
        if self.o.layout {
            self.check_layout("at the end")?;
        }
        if self.o.metamorphic {
            self.metamorphic("final background work", |me| me.wait_idle())?;
        }
        self.check_dirlist("at the end")?;
        self.finish_stats();
        self.close()?;
        Ok(())
    }

    fn finish_stats(&mut self) {
        let layout = self.db().verif_layout();
        let levels: BTreeSet<usize> = layout.iter().map(|f| f.level).collect();
        if levels.iter().any(|l| *l >= 2) {
            self.stats.bump("has_file_at_level_ge_2");
        }
        if levels.len() >= 3 {
            self.stats.bump("three_or_more_levels");
        }
        if levels.iter().any(|l| *l >= 3) {
            self.stats.bump("has_file_at_level_ge_3");
        }
        if levels.iter().any(|l| *l >= 4) {
            self.stats.bump("has_file_at_level_ge_4");
        }
        if levels.iter().any(|l| *l >= 5) {
            self.stats.bump("has_file_at_level_ge_5");
        }
        if levels.iter().any(|l| *l >= 6) {
            self.stats.bump("has_file_at_the_last_level_6");
        }
        if (1..7).any(|l| layout.iter().filter(|f| f.level == l).count() >= 4) {
            self.stats.bump("four_or_more_files_in_a_level_ge_1");
        }
        if layout.len() >= 5 {
            self.stats.bump("five_or_more_tables");
        }
        for (c, name) in [
            (Counter::TrivialMove, "trivial_move"),
            (Counter::SeekCompaction, "seek_compaction"),
            (Counter::SizeCompaction, "size_compaction"),
            (Counter::ManualCompaction, "manual_compaction"),
            (Counter::TableCompaction, "table_compaction"),
            (Counter::MemtableRotated, "memtable_rotated"),
            (Counter::L0Slowdown, "l0_slowdown"),
            (Counter::L0Stop, "l0_stop"),
            (Counter::MemtableWait, "memtable_wait"),
            (Counter::IterErrorSwallowed, "iter_error_swallowed"),
        ] {
            if delta(&self.c0, c) > 0 {
                self.stats.bump(name);
            }
        }
    }
}

impl<'a> Drop for Interp<'a> {
    fn drop(&mut self) {
        self.iters.clear();
    }
}

pub fn delta(c0: &[u64], c: Counter) -> u64 {
    raindb::verif::counter(c) - c0[c as usize]
}

fn compactions_total() -> u64 {
    raindb::verif::counter(Counter::TableCompaction)
        + raindb::verif::counter(Counter::TrivialMove)
        + raindb::verif::counter(Counter::MemtableFlushed)
}

/// C11(b): the directory holds exactly CURRENT, the current manifest, the active WAL and the tables
/// of the current version. Call only when everything is released and background work is idle.
pub fn dir_exact(db: &DB, fs: &MemFs) -> Result<(), String> {
    dir_exact_names(db, fs.file_names())
}

pub fn dir_exact_names(db: &DB, names: Vec<String>) -> Result<(), String> {
    let st = db.verif_state();
    if let Some(b) = &st.bad_state {
        return Err(format!("database is in a bad state: {b}"));
    }
    let layout = db.verif_layout();
    let mut want: BTreeSet<String> = BTreeSet::new();
    want.insert("db/CURRENT".into());
    want.insert(format!("db/MANIFEST-{}.manifest", st.manifest_number));
    want.insert(format!("db/wal/wal-{}.log", st.db_wal_number));
    for f in &layout {
        want.insert(format!("db/data/{}.rdb", f.number));
    }
    let have: BTreeSet<String> = names.into_iter().collect();
    if want != have {
        let extra: Vec<_> = have.difference(&want).cloned().collect();
        let missing: Vec<_> = want.difference(&have).cloned().collect();
        return Err(format!(
            "directory differs from the needed files; dead files kept: {extra:?}; live files missing: {missing:?}; versions alive: {}; live file numbers {:?}; tables in use {:?}; background scheduled {}; immutable memtable {}; needs compaction {}",
            st.num_versions, st.live_files, st.tables_in_use, st.background_scheduled, st.has_immutable_memtable, st.needs_compaction
        ));
    }
    Ok(())
}

pub fn canon_path(p: &str) -> String {
    // file name handler formats are "<db>/wal/wal-<n>.log", "<db>/data/<n>.rdb", "<db>/MANIFEST-<n>"
    p.to_string()
}

pub fn show_vkey(k: &VKey) -> String {
    format!("{}@{}:{}", hex(&k.user_key), k.seq, if k.is_put { "P" } else { "D" })
}

pub fn show_layout(l: &[VFile]) -> String {
    l.iter()
        .map(|f| {
            format!(
                "L{} #{} [{} .. {}]",
                f.level,
                f.number,
                show_vkey(&f.smallest),
                show_vkey(&f.largest)
            )
        })
        .collect::<Vec<_>>()
        .join("; ")
}

fn render_key(k: &VKey) -> String {
    format!(
        "{} @ {} : {}",
        String::from_utf8_lossy(&k.user_key).escape_debug(),
        k.seq,
        if k.is_put { "Put" } else { "Delete" }
    )
}

/// Re-create the SSTables descriptor string from the structural layout.
pub fn render_sstables(layout: &[VFile]) -> String {
    use std::fmt::Write;
    let mut s = String::new();
    for level in 0..7usize {
        writeln!(s, "--- Level {level} ---").unwrap();
        for f in layout.iter().filter(|f| f.level == level) {
            writeln!(
                s,
                "{} (size: {})[{}..{}]",
                f.number,
                f.size,
                render_key(&f.smallest),
                render_key(&f.largest)
            )
            .unwrap();
        }
    }
    s
}

fn cmp_vkey(a: &VKey, b: &VKey) -> std::cmp::Ordering {
    a.user_key.cmp(&b.user_key).then(b.seq.cmp(&a.seq))
}

/// Structural well-formedness of a layout (C10).
pub fn wellformed(layout: &[VFile]) -> Result<(), String> {
    let mut seen = BTreeSet::new();
    for f in layout {
        if !seen.insert(f.number) {
            return Err(format!("file number {} appears twice", f.number));
        }
        if cmp_vkey(&f.smallest, &f.largest) == std::cmp::Ordering::Greater {
            return Err(format!(
                "file {}: smallest {} is greater than largest {}",
                f.number,
                show_vkey(&f.smallest),
                show_vkey(&f.largest)
            ));
        }
    }
    for level in 1..7usize {
        let files: Vec<&VFile> = layout.iter().filter(|f| f.level == level).collect();
        for w in files.windows(2) {
            // ordered and disjoint in internal-key order; additionally one user key must not be
            // split over two files of a level >= 1 boundary in a way that makes lookups ambiguous:
            // that is the lookup code's concern, the statement only asks for disjoint ranges.
            if cmp_vkey(&w[0].largest, &w[1].smallest) != std::cmp::Ordering::Less {
                return Err(format!(
                    "level {level}: files {} and {} are out of order or overlap ({} >= {})",
                    w[0].number,
                    w[1].number,
                    show_vkey(&w[0].largest),
                    show_vkey(&w[1].smallest)
                ));
            }
        }
    }
    Ok(())
}

fn show_res(r: &Result<Vec<u8>, RainDBError>) -> String {
    match r {
        Ok(v) => format!("value {}", hex(v)),
        Err(RainDBError::KeyNotFound) => "KeyNotFound".to_string(),
        Err(e) => format!("Err({e:?})"),
    }
}

fn show_opt(v: Option<&Vec<u8>>) -> String {
    match v {
        Some(v) => format!("value {}", hex(v)),
        None => "absent (KeyNotFound expected)".to_string(),
    }
}

fn diff_pairs(a: &[(Vec<u8>, Vec<u8>)], b: &[(Vec<u8>, Vec<u8>)]) -> String {
    let ma: BTreeMap<_, _> = a.iter().cloned().collect();
    let mb: BTreeMap<_, _> = b.iter().cloned().collect();
    let mut out = vec![];
    if ma.len() != a.len() {
        out.push("left has repeated keys".to_string());
    }
    let ka: Vec<_> = a.iter().map(|p| &p.0).collect();
    let mut sorted = ka.clone();
    sorted.sort();
    if ka != sorted {
        out.push("left is not in key order".to_string());
    }
    for (k, v) in &ma {
        match mb.get(k) {
            None => out.push(format!("{} only left ({})", hex(k), hex(v))),
            Some(w) if w != v => out.push(format!("{}: {} vs {}", hex(k), hex(v), hex(w))),
            _ => {}
        }
    }
    for (k, v) in &mb {
        if !ma.contains_key(k) {
            out.push(format!("{} only right ({})", hex(k), hex(v)));
        }
    }
    out.truncate(6);
    out.join("; ")
}

type Dump = Vec<(Vec<(Vec<u8>, Vec<u8>)>, Vec<Result<Option<Vec<u8>>, String>>)>;

fn diff_dumps(a: &Dump, b: &Dump) -> String {
    for (i, (x, y)) in a.iter().zip(b.iter()).enumerate() {
        let view = if i == 0 { "latest".to_string() } else { format!("snapshot #{}", i - 1) };
        if x.0 != y.0 {
            return format!("scan at {view}: {}", diff_pairs(&x.0, &y.0));
        }
        if x.1 != y.1 {
            for (j, (g, h)) in x.1.iter().zip(y.1.iter()).enumerate() {
                if g != h {
                    return format!("get of universe key #{j} at {view}: {:?} vs {:?}", g, h);
                }
            }
        }
    }
    "different number of views".into()
}
