//! Filesystem wrapper that numbers every call and can fail call `n` once (transient) or every call
//! from `n` on (sticky).

use raindb::fs::{FileLock, FileSystem, RandomAccessFile, ReadonlyRandomAccessFile};
use std::io::{self, Read, Seek, SeekFrom, Write};
use std::path::{Path, PathBuf};
use std::sync::atomic::{AtomicBool, AtomicI64, AtomicU64, Ordering};
use std::sync::{Arc, Mutex};

pub struct Ctl {
    /// index of the call to fail; negative = disarmed
    pub fail_at: AtomicI64,
    pub sticky: AtomicBool,
    /// the failing write/append first applies the first half of its buffer (a write that fails
    /// midway, e.g. for lack of space, leaves a prefix behind)
    pub partial: AtomicBool,
    pub fired: AtomicBool,
    pub calls: AtomicU64,
    /// kind of every call (only when `log_kinds`)
    pub kinds: Mutex<Vec<&'static str>>,
    pub log_kinds: AtomicBool,
    /// description of the call that was failed first
    pub fired_what: Mutex<Option<String>>,
    pub failures: AtomicU64,
    /// fail the n-th write/append whose file name contains the substring: (substring, countdown, sticky)
    pub write_filter: Mutex<Option<(String, i64, bool)>>,
    /// called for every numbered call with its kind (used by C17 to watch who writes when)
    pub observer: Mutex<Option<Arc<dyn Fn(&'static str) + Send + Sync>>>,
    /// fail the n-th read-side call (open-for-read, read, len, size, list_dir) made by one particular
    /// thread, once: (thread, countdown). Used by C17 to make one thread's recovery fail.
    pub thread_fault: Mutex<Option<(std::thread::ThreadId, i64)>>,
}

impl Ctl {
    pub fn new() -> Arc<Self> {
        Arc::new(Ctl {
            fail_at: AtomicI64::new(-1),
            sticky: AtomicBool::new(false),
            partial: AtomicBool::new(false),
            fired: AtomicBool::new(false),
            calls: AtomicU64::new(0),
            kinds: Mutex::new(vec![]),
            log_kinds: AtomicBool::new(false),
            fired_what: Mutex::new(None),
            failures: AtomicU64::new(0),
            observer: Mutex::new(None),
            write_filter: Mutex::new(None),
            thread_fault: Mutex::new(None),
        })
    }

    pub fn arm(&self, at: u64, sticky: bool) {
        self.sticky.store(sticky, Ordering::SeqCst);
        self.fired.store(false, Ordering::SeqCst);
        self.fail_at.store(at as i64, Ordering::SeqCst);
    }

    pub fn disarm(&self) {
        self.fail_at.store(-1, Ordering::SeqCst);
        self.sticky.store(false, Ordering::SeqCst);
        self.partial.store(false, Ordering::SeqCst);
        *self.write_filter.lock().unwrap() = None;
    }

    fn tick(&self, kind: &'static str, what: impl FnOnce() -> String) -> io::Result<()> {
        let n = self.calls.fetch_add(1, Ordering::SeqCst) as i64;
        let obs = self.observer.lock().unwrap().clone();
        if let Some(o) = obs {
            o(kind);
        }
        if self.log_kinds.load(Ordering::Relaxed) {
            self.kinds.lock().unwrap().push(kind);
        }
        if matches!(kind, "read" | "read_from" | "open" | "len" | "size" | "list_dir") {
            let mut tf = self.thread_fault.lock().unwrap();
            if let Some((id, left)) = tf.as_mut() {
                if *id == std::thread::current().id() {
                    *left -= 1;
                    if *left <= 0 {
                        *tf = None;
                        self.failures.fetch_add(1, Ordering::SeqCst);
                        return Err(io::Error::new(io::ErrorKind::Other, "injected I/O failure"));
                    }
                }
            }
        }
        if matches!(kind, "write" | "append") && self.write_filter.lock().unwrap().is_some() {
            let name = what();
            let mut wf = self.write_filter.lock().unwrap();
            if let Some((sub, left, sticky)) = wf.as_mut() {
                if name.contains(sub.as_str()) {
                    *left -= 1;
                    if *left == 0 || (*sticky && *left < 0) {
                        self.failures.fetch_add(1, Ordering::SeqCst);
                        if !self.fired.swap(true, Ordering::SeqCst) {
                            *self.fired_what.lock().unwrap() = Some(format!("{kind} {name}"));
                        }
                        return Err(io::Error::new(io::ErrorKind::Other, "injected I/O failure"));
                    }
                }
            }
            drop(wf);
            return self.tick_numbered(n, kind, move || name);
        }
        self.tick_numbered(n, kind, what)
    }

    fn tick_numbered(&self, n: i64, kind: &'static str, what: impl FnOnce() -> String) -> io::Result<()> {
        let at = self.fail_at.load(Ordering::SeqCst);
        if at >= 0 {
            let hit = n == at || (self.sticky.load(Ordering::SeqCst) && n > at);
            if hit {
                self.failures.fetch_add(1, Ordering::SeqCst);
                if !self.fired.swap(true, Ordering::SeqCst) {
                    *self.fired_what.lock().unwrap() = Some(format!("{kind} {}", what()));
                }
                return Err(io::Error::new(io::ErrorKind::Other, "injected I/O failure"));
            }
        }
        Ok(())
    }
}

pub struct FaultFs {
    pub inner: Arc<dyn FileSystem>,
    pub ctl: Arc<Ctl>,
}

impl FaultFs {
    pub fn new(inner: Arc<dyn FileSystem>) -> Self {
        FaultFs { inner, ctl: Ctl::new() }
    }
}

struct WFile {
    f: Box<dyn RandomAccessFile>,
    ctl: Arc<Ctl>,
    name: String,
}
struct RFile {
    f: Box<dyn ReadonlyRandomAccessFile>,
    ctl: Arc<Ctl>,
    name: String,
}

impl Read for RFile {
    fn read(&mut self, b: &mut [u8]) -> io::Result<usize> {
        self.ctl.tick("read", || self.name.clone())?;
        self.f.read(b)
    }
}
impl Seek for RFile {
    fn seek(&mut self, p: SeekFrom) -> io::Result<u64> {
        self.f.seek(p)
    }
}
impl ReadonlyRandomAccessFile for RFile {
    fn read_from(&self, b: &mut [u8], o: usize) -> io::Result<usize> {
        self.ctl.tick("read_from", || format!("{} @{o}", self.name))?;
        self.f.read_from(b, o)
    }
    fn len(&self) -> io::Result<u64> {
        self.ctl.tick("len", || self.name.clone())?;
        self.f.len()
    }
}
impl Read for WFile {
    fn read(&mut self, b: &mut [u8]) -> io::Result<usize> {
        self.f.read(b)
    }
}
impl Seek for WFile {
    fn seek(&mut self, p: SeekFrom) -> io::Result<u64> {
        self.f.seek(p)
    }
}
impl Write for WFile {
    fn write(&mut self, b: &[u8]) -> io::Result<usize> {
        if let Err(e) = self.ctl.tick("write", || format!("{} {}B", self.name, b.len())) {
            if self.ctl.partial.load(Ordering::SeqCst) && b.len() >= 2 {
                let _ = self.f.write(&b[..b.len() / 2]);
            }
            return Err(e);
        }
        self.f.write(b)
    }
    fn flush(&mut self) -> io::Result<()> {
        // a failing flush reports an error for data that has already reached the file
        self.ctl.tick("flush", || self.name.clone())?;
        self.f.flush()
    }
}
impl ReadonlyRandomAccessFile for WFile {
    fn read_from(&self, b: &mut [u8], o: usize) -> io::Result<usize> {
        self.f.read_from(b, o)
    }
    fn len(&self) -> io::Result<u64> {
        self.ctl.tick("len", || self.name.clone())?;
        self.f.len()
    }
}
impl RandomAccessFile for WFile {
    fn append(&mut self, b: &[u8]) -> io::Result<usize> {
        if let Err(e) = self.ctl.tick("append", || format!("{} {}B", self.name, b.len())) {
            if self.ctl.partial.load(Ordering::SeqCst) && b.len() >= 2 {
                let _ = self.f.append(&b[..b.len() / 2]);
            }
            return Err(e);
        }
        self.f.append(b)
    }
}

fn s(p: &Path) -> String {
    p.to_string_lossy().to_string()
}

impl FileSystem for FaultFs {
    fn get_name(&self) -> String {
        "FaultFs".into()
    }
    fn create_dir(&self, p: &Path) -> io::Result<()> {
        self.inner.create_dir(p)
    }
    fn create_dir_all(&self, p: &Path) -> io::Result<()> {
        self.inner.create_dir_all(p)
    }
    fn list_dir(&self, p: &Path) -> io::Result<Vec<PathBuf>> {
        self.ctl.tick("list_dir", || s(p))?;
        self.inner.list_dir(p)
    }
    fn open_file(&self, p: &Path) -> io::Result<Box<dyn ReadonlyRandomAccessFile>> {
        // a missing file is not a call that can be failed meaningfully: keep NotFound semantics
        let f = self.inner.open_file(p)?;
        self.ctl.tick("open", || s(p))?;
        Ok(Box::new(RFile { f, ctl: self.ctl.clone(), name: s(p) }))
    }
    fn rename(&self, a: &Path, b: &Path) -> io::Result<()> {
        self.ctl.tick("rename", || format!("{} -> {}", s(a), s(b)))?;
        self.inner.rename(a, b)
    }
    fn create_file(&self, p: &Path, append: bool) -> io::Result<Box<dyn RandomAccessFile>> {
        self.ctl.tick("create", || format!("{} append={append}", s(p)))?;
        Ok(Box::new(WFile { f: self.inner.create_file(p, append)?, ctl: self.ctl.clone(), name: s(p) }))
    }
    fn remove_file(&self, p: &Path) -> io::Result<()> {
        self.ctl.tick("remove", || s(p))?;
        self.inner.remove_file(p)
    }
    fn remove_dir(&self, p: &Path) -> io::Result<()> {
        self.inner.remove_dir(p)
    }
    fn remove_dir_all(&self, p: &Path) -> io::Result<()> {
        self.inner.remove_dir_all(p)
    }
    fn get_file_size(&self, p: &Path) -> io::Result<u64> {
        self.ctl.tick("size", || s(p))?;
        self.inner.get_file_size(p)
    }
    fn is_dir(&self, p: &Path) -> io::Result<bool> {
        self.inner.is_dir(p)
    }
    fn lock_file(&self, p: &Path) -> io::Result<FileLock> {
        let r = self.inner.lock_file(p);
        if r.is_ok() {
            // not a numbered call (never faulted): only reported to the observer, after the fact
            let obs = self.ctl.observer.lock().unwrap().clone();
            if let Some(o) = obs {
                o("locked");
            }
        }
        r
    }
}
