//! Decoders from fuzzer bytes to the harness' structured cases (shared by the libFuzzer targets
//! in /verif/fuzz and by `vcheck fuzz-artifact`, which turns a crash artifact into a replay file).

use crate::case::*;
use crate::checks::logfmt::{LogCase, SegEnd, Segment};
use crate::checks::tablefmt::{Entry, TCur, TableCase};
use arbitrary::Unstructured;

fn log_len(u: &mut Unstructured) -> u32 {
    const B: u32 = 32768;
    match u.int_in_range(0..=7u8).unwrap_or(0) {
        0 => u.int_in_range(0..=2).unwrap_or(0),
        1 => u.int_in_range(0..=200).unwrap_or(0),
        2 => u.int_in_range(B - 16..=B + 2).unwrap_or(B),
        3 => u.int_in_range(B - 7 - 9..=B - 7 + 9).unwrap_or(B),
        4 => u.int_in_range(2 * B - 30..=2 * B + 10).unwrap_or(B),
        5 => 100_000,
        _ => u.int_in_range(0..=40_000).unwrap_or(0),
    }
}

pub fn log_case(data: &[u8]) -> LogCase {
    let mut u = Unstructured::new(data);
    let nseg = u.int_in_range(1..=4usize).unwrap_or(1);
    let mut segments = vec![];
    for _ in 0..nseg {
        let n = u.int_in_range(0..=5usize).unwrap_or(0);
        let lens = (0..n).map(|_| log_len(&mut u)).collect();
        let end = if u.ratio(2u8, 5u8).unwrap_or(false) {
            SegEnd::StopAfterFragment(u.arbitrary().unwrap_or(0))
        } else {
            SegEnd::Close
        };
        segments.push(Segment { lens, end });
    }
    let truncate = if u.ratio(2u8, 5u8).unwrap_or(false) { Some(u.arbitrary().unwrap_or(0)) } else { None };
    LogCase { segments, truncate }
}

pub fn table_case(data: &[u8]) -> TableCase {
    let mut u = Unstructured::new(data);
    let pool = key_pool();
    let nk = u.int_in_range(1..=60usize).unwrap_or(1);
    let mut keys: Vec<Vec<u8>> = (0..nk).map(|_| pool[u.int_in_range(0..=pool.len() - 1).unwrap_or(0)].clone()).collect();
    keys.sort();
    keys.dedup();
    let mut entries = vec![];
    for k in keys {
        let nv = u.int_in_range(1..=5usize).unwrap_or(1);
        let mut seqs: Vec<u64> = (0..nv).map(|_| u.int_in_range(1..=5000u64).unwrap_or(1)).collect();
        seqs.sort_by(|a, b| b.cmp(a));
        seqs.dedup();
        for s in seqs {
            let is_put = u.ratio(4u8, 5u8).unwrap_or(true);
            let vlen = if !is_put {
                0
            } else if u.ratio(1u8, 20u8).unwrap_or(false) {
                u.int_in_range(4000..=6000u32).unwrap_or(4000)
            } else {
                u.int_in_range(0..=300u32).unwrap_or(0)
            };
            entries.push(Entry { key: k.clone(), seq: s, is_put, vlen });
        }
    }
    let sizes = [1usize, 16, 64, 256, 700, 4096, 1 << 20];
    let block_size = sizes[u.int_in_range(0..=sizes.len() - 1).unwrap_or(0)];
    let exact_filter = u.arbitrary().unwrap_or(false);
    let nw = u.int_in_range(0..=40usize).unwrap_or(0);
    let mut walk = vec![];
    for _ in 0..nw {
        walk.push(match u.int_in_range(0..=5u8).unwrap_or(0) {
            0 => TCur::First,
            1 => TCur::Last,
            2 => TCur::SeekEntry(u.arbitrary().unwrap_or(0), u.int_in_range(-1..=1i8).unwrap_or(0)),
            3 => TCur::SeekRaw(pool[u.int_in_range(0..=pool.len() - 1).unwrap_or(0)].clone(), u.int_in_range(0..=6000u64).unwrap_or(0)),
            4 => TCur::Next,
            _ => TCur::Prev,
        });
    }
    TableCase { entries, block_size, exact_filter, walk }
}

fn cfg(u: &mut Unstructured) -> Cfg {
    Cfg {
        memtable: MEMTABLE_SIZES[u.int_in_range(0..=3usize).unwrap_or(0)],
        file: FILE_SIZES[u.int_in_range(0..=3usize).unwrap_or(0)],
        block: BLOCK_SIZES[u.int_in_range(0..=4usize).unwrap_or(0)],
        reuse: u.arbitrary().unwrap_or(true),
    }
}

fn val(u: &mut Unstructured) -> Val {
    Val {
        len: if u.ratio(1u8, 50u8).unwrap_or(false) { 40_000 } else { u.int_in_range(0..=160u32).unwrap_or(8) },
        compressible: u.ratio(1u8, 5u8).unwrap_or(false),
    }
}

pub fn history_case(data: &[u8]) -> Case {
    let mut u = Unstructured::new(data);
    let pool = key_pool();
    let nk = u.int_in_range(8..=24usize).unwrap_or(8);
    let mut universe: Vec<Vec<u8>> = (0..nk).map(|_| pool[u.int_in_range(0..=pool.len() - 1).unwrap_or(0)].clone()).collect();
    universe.sort();
    universe.dedup();
    let c = cfg(&mut u);
    let mut ops = vec![];
    while !u.is_empty() && ops.len() < 150 {
        let s: u16 = u.arbitrary().unwrap_or(0);
        ops.push(match u.int_in_range(0..=19u8).unwrap_or(0) {
            0..=5 => Op::Put(s, val(&mut u)),
            6 | 7 => Op::Delete(s),
            8 => Op::Batch(
                (0..u.int_in_range(0..=5usize).unwrap_or(0))
                    .map(|_| (u.arbitrary().unwrap_or(0), if u.ratio(3u8, 4u8).unwrap_or(true) { Some(val(&mut u)) } else { None }))
                    .collect(),
            ),
            9 | 10 => Op::Get(s),
            11 => Op::Flush,
            12 => Op::Compact(
                if u.arbitrary().unwrap_or(false) { Some(s) } else { None },
                if u.arbitrary().unwrap_or(false) { Some(u.arbitrary().unwrap_or(0)) } else { None },
            ),
            13 => Op::Fill { start: s, n: u.int_in_range(2..=12u8).unwrap_or(2), val: val(&mut u) },
            14 => Op::Reopen(cfg(&mut u)),
            15 => Op::Snap,
            16 => Op::IterNew(if u.arbitrary().unwrap_or(false) { Some(s) } else { None }),
            17 | 18 => Op::IterOp(
                s,
                match u.int_in_range(0..=4u8).unwrap_or(0) {
                    0 => Cur::First,
                    1 => Cur::Last,
                    2 => Cur::Seek(u.arbitrary().unwrap_or(0)),
                    3 => Cur::Next,
                    _ => Cur::Prev,
                },
            ),
            _ => Op::WaitIdle,
        });
    }
    Case { cfg: c, universe, ops }
}
