//! proptest strategies for history cases.

use crate::case::*;
use proptest::prelude::*;
use proptest::sample::{select, subsequence};
use proptest::strategy::Union;

#[derive(Clone, Debug)]
pub struct Weights {
    pub put: u32,
    pub delete: u32,
    pub batch: u32,
    pub get: u32,
    pub getall: u32,
    pub flush: u32,
    pub compact: u32,
    pub fill: u32,
    pub hammer: u32,
    pub reopen: u32,
    pub snap: u32,
    pub release: u32,
    pub iter_new: u32,
    pub iter_op: u32,
    pub iter_drop: u32,
    pub descriptor: u32,
    pub wait_idle: u32,
}

#[derive(Clone, Debug)]
pub struct GenParams {
    pub w: Weights,
    pub max_chunks: usize,
    pub max_ops: usize,
    /// per-mille probability of a 33..100 kB value
    pub big_value_permille: u32,
    pub structured: bool,
    pub stats_descriptor: bool,
    pub min_universe: usize,
    pub max_universe: usize,
}

impl GenParams {
    pub fn base() -> Self {
        GenParams {
            w: Weights {
                put: 30,
                delete: 10,
                batch: 6,
                get: 10,
                getall: 2,
                flush: 6,
                compact: 4,
                fill: 5,
                hammer: 1,
                reopen: 3,
                snap: 0,
                release: 0,
                iter_new: 0,
                iter_op: 0,
                iter_drop: 0,
                descriptor: 1,
                wait_idle: 2,
            },
            max_chunks: 10,
            max_ops: 120,
            big_value_permille: 8,
            structured: true,
            stats_descriptor: false,
            min_universe: 8,
            max_universe: 40,
        }
    }
}

pub fn cfg_strategy() -> impl Strategy<Value = Cfg> {
    (
        prop_oneof![
            5 => Just(512usize), 4 => Just(700usize), 4 => Just(1500usize), 3 => Just(5000usize),
            1 => Just(100_000usize), 1 => Just(4 * 1024 * 1024usize)
        ],
        prop_oneof![
            5 => Just(400u64), 4 => Just(1024u64), 3 => Just(2048u64), 2 => Just(6000u64),
            1 => Just(1024 * 1024u64)
        ],
        select(BLOCK_SIZES),
        any::<bool>(),
    )
        .prop_map(|(memtable, file, block, reuse)| Cfg {
            memtable,
            file,
            block,
            reuse,
        })
}

pub fn val_strategy(big_permille: u32) -> impl Strategy<Value = Val> {
    let len = prop_oneof![
        30 => Just(0u32),
        50 => 1u32..8,
        800 => 8u32..121,
        (120 - big_permille.min(100)) => 121u32..1000,
        // lengths at which a length prefix grows (1 -> 2 -> 3 varint bytes) and around one log block
        12 => select(vec![127u32, 128, 129, 255, 256, 257]),
        big_permille.max(1) => select(vec![16_383u32, 16_384, 16_385, 32_760, 32_761, 32_768]),
        big_permille.max(1) => 1000u32..33_000,
        big_permille.max(1) => 33_000u32..100_000,
    ];
    (len, prop::bool::weighted(0.2)).prop_map(|(len, compressible)| Val { len, compressible })
}

fn sel() -> impl Strategy<Value = Sel> {
    any::<u16>()
}

pub fn cur_strategy() -> impl Strategy<Value = Cur> {
    prop_oneof![
        10 => Just(Cur::First),
        10 => Just(Cur::Last),
        20 => sel().prop_map(Cur::Seek),
        8 => prop_oneof![
            prop::collection::vec(any::<u8>(), 0..4),
            Just(vec![0xff; 6]),
            Just(vec![]),
            (select(key_pool()), 0u8..=1).prop_map(|(mut k, b)| { k.push(b * 0xff); k }),
        ].prop_map(Cur::SeekRaw),
        30 => Just(Cur::Next),
        32 => Just(Cur::Prev),
    ]
}

fn op_strategy(p: &GenParams) -> BoxedStrategy<Op> {
    let w = &p.w;
    let val = || val_strategy(p.big_value_permille);
    let mut alts: Vec<(u32, BoxedStrategy<Op>)> = vec![];
    let mut add = |weight: u32, s: BoxedStrategy<Op>| {
        if weight > 0 {
            alts.push((weight, s));
        }
    };
    add(w.put, (sel(), val()).prop_map(|(k, v)| Op::Put(k, v)).boxed());
    add(w.delete, sel().prop_map(Op::Delete).boxed());
    add(
        w.batch,
        prop::collection::vec((sel(), prop::option::weighted(0.7, val())), 0..8)
            .prop_map(Op::Batch)
            .boxed(),
    );
    // wide batches: the operation count needs a two-byte varint from 128 on (WAL record header), and
    // the batch is far larger than the small memtables
    add(
        if w.batch > 0 { (w.batch + 7) / 8 } else { 0 },
        prop_oneof![3 => 120usize..136, 1 => 136usize..300]
            .prop_flat_map(|n| {
                prop::collection::vec(
                    (sel(), prop::option::weighted(0.8, (0u32..24, any::<bool>()).prop_map(|(len, compressible)| Val { len, compressible }))),
                    n..=n,
                )
            })
            .prop_map(Op::Batch)
            .boxed(),
    );
    add(w.get, sel().prop_map(Op::Get).boxed());
    add(w.getall, Just(Op::GetAll).boxed());
    add(w.flush, Just(Op::Flush).boxed());
    add(
        w.compact,
        (prop::option::weighted(0.7, sel()), prop::option::weighted(0.7, sel()))
            .prop_map(|(a, b)| Op::Compact(a, b))
            .boxed(),
    );
    add(
        w.fill,
        (sel(), 2u8..14, val())
            .prop_map(|(start, n, val)| Op::Fill { start, n, val })
            .boxed(),
    );
    add(
        w.hammer,
        (sel(), 0u8..30, any::<bool>())
            .prop_map(|(k, n, iter)| if iter { Op::IterHammer(k, n) } else { Op::Hammer(k, n) })
            .boxed(),
    );
    add(w.reopen, cfg_strategy().prop_map(Op::Reopen).boxed());
    add(w.snap, Just(Op::Snap).boxed());
    add(w.release, sel().prop_map(Op::Release).boxed());
    add(
        w.iter_new,
        prop::option::weighted(0.4, sel()).prop_map(Op::IterNew).boxed(),
    );
    add(
        w.iter_op,
        (sel(), cur_strategy()).prop_map(|(j, c)| Op::IterOp(j, c)).boxed(),
    );
    add(w.iter_drop, sel().prop_map(Op::IterDrop).boxed());
    let stats = p.stats_descriptor;
    add(
        w.descriptor,
        prop_oneof![
            (0u8..8).prop_map(Desc::NumFiles),
            Just(Desc::SSTables),
            Just(if stats { Desc::Stats } else { Desc::SSTables }),
        ]
        .prop_map(Op::Descriptor)
        .boxed(),
    );
    add(w.wait_idle, Just(Op::WaitIdle).boxed());
    Union::new_weighted(alts).boxed()
}

/// Structured chunks for the LSM shapes that random mixing reaches rarely.
fn chunk_strategy(p: &GenParams) -> BoxedStrategy<Vec<Op>> {
    let op = op_strategy(p);
    let random = prop::collection::vec(op.clone(), 1..24).boxed();
    if !p.structured {
        return random;
    }
    let v = || val_strategy(0);
    let snaps = p.w.snap > 0;
    // value -> flush -> delete -> flush -> compact one level
    let ladder = (sel(), v(), prop::option::of(sel()), prop::option::of(sel()), any::<bool>())
        .prop_map(move |(k, val, lo, hi, snap)| {
            let mut o = vec![Op::Put(k, val), Op::Flush];
            if snap && snaps {
                o.push(Op::Snap);
            }
            o.extend([Op::Delete(k), Op::Flush, Op::Compact(lo, hi), Op::Get(k)]);
            o
        })
        .boxed();
    // 4..8 overlapping flushes without waiting
    let pile = prop::collection::vec((sel(), 2u8..7, v()), 4..9)
        .prop_map(|fs| {
            let mut o = vec![];
            for (start, n, val) in fs {
                o.push(Op::Fill { start, n, val });
                o.push(Op::Flush);
            }
            o
        })
        .boxed();
    // disjoint single-key flushes followed by repeated gets: trivial moves / seek compactions
    let disjoint = (prop::collection::vec((sel(), v()), 2..5), sel(), 0u8..30, any::<bool>())
        .prop_map(|(ks, h, n, iter)| {
            let mut o = vec![];
            for (k, val) in ks {
                o.push(Op::Put(k, val));
                o.push(Op::Flush);
            }
            o.push(if iter { Op::IterHammer(h, n) } else { Op::Hammer(h, n) });
            o.push(Op::WaitIdle);
            o
        })
        .boxed();
    // many versions of one key under snapshots, cut across files
    let straddle = (sel(), prop::collection::vec((v(), any::<bool>(), any::<bool>()), 3..10))
        .prop_map(move |(k, vs)| {
            let mut o = vec![];
            for (val, snap, flush) in vs {
                o.push(Op::Put(k, val));
                if snap && snaps {
                    o.push(Op::Snap);
                }
                if flush {
                    o.push(Op::Flush);
                }
            }
            o.push(Op::Compact(None, None));
            o
        })
        .boxed();
    // versions of one key retained by a snapshot and cut across two files of one level; then the
    // snapshot goes away (release or reopen), the key is deleted and a partial range is compacted
    // (boundary files of compaction inputs, tombstone dropping)
    let reopens = p.w.reopen > 0;
    let boundary = (
        prop::collection::vec(sel(), 4),
        (prop::collection::vec(121u32..400, 2..7), prop::bool::weighted(0.8)),
        (2u8..12, 40u32..250),
        (any::<bool>(), cfg_strategy()),
        (any::<bool>(), prop::option::weighted(0.3, sel()), 0u8..3),
        prop::collection::vec(v(), 2),
    )
        .prop_map(move |(mut ks, (pile, del), (n, flen), (reopen, cfg), (manual, hi, extra), small)| {
            // the universe is sorted and selectors map monotonically, so a <= b <= c <= u as keys
            ks.sort();
            let (a, b, c, u) = (ks[0], ks[1], ks[2], ks[3]);
            let mut o = vec![];
            if snaps {
                o.push(Op::Snap);
            }
            o.push(Op::Fill { start: a, n, val: Val { len: flen, compressible: false } });
            for len in pile {
                o.push(Op::Put(u, Val { len, compressible: false }));
            }
            if del {
                o.push(Op::Delete(u));
            }
            o.push(Op::Compact(None, None));
            if reopen && reopens {
                o.push(Op::Reopen(cfg));
            } else if snaps {
                o.push(Op::Release(u16::MAX));
            }
            // two (or more) small files above the level that now holds the pile, below u
            o.push(Op::Put(b, small[0]));
            o.push(Op::Flush);
            o.push(Op::Put(c, small[1]));
            o.push(Op::Flush);
            for _ in 0..extra {
                o.push(Op::Put(a, small[0]));
                o.push(Op::Flush);
            }
            if manual {
                o.push(Op::Compact(Some(c), hi));
            } else {
                o.push(if extra == 1 { Op::IterHammer(c, 120) } else { Op::Hammer(c, 120) });
                o.push(Op::WaitIdle);
            }
            o.push(Op::Get(u));
            o
        })
        .boxed();
    // a big memtable full of writes is re-opened with a tiny memtable: the WAL replay produces a
    // dozen or more level-0 files at once, and the writes that follow run into the level-0
    // slowdown and stop triggers while the first compaction is still running
    let l0pile = (
        (select(vec![100_000usize, 4 * 1024 * 1024]), prop::collection::vec((sel(), 8u8..14, 150u32..400), 2..5)),
        (select(vec![512usize, 700]), select(vec![400u64, 1024, 2048]), select(vec![128usize, 1024, 4096]), any::<bool>()),
        prop::collection::vec((sel(), 200u32..400), 3..10),
    )
        .prop_map(move |((big, fills), (memtable, file, block, reuse), after)| {
            let mut o = vec![];
            if reopens {
                o.push(Op::Reopen(Cfg { memtable: big, file, block, reuse }));
            }
            for (start, n, len) in fills {
                o.push(Op::Fill { start, n, val: Val { len, compressible: false } });
            }
            if reopens {
                o.push(Op::Reopen(Cfg { memtable, file, block, reuse }));
            }
            for (k, len) in after {
                o.push(Op::Put(k, Val { len, compressible: false }));
            }
            o.push(Op::WaitIdle);
            o
        })
        .boxed();
    // a fresh write-ahead log is filled to within a few bytes of the end of its first 32 KiB block
    // (record = 7-byte header + 17 bytes of batch framing + key + value), then re-opened for
    // appending (reuse_log_files) and written to again: block-trailer handling of a reused log
    let waltail = (
        (sel(), 1u8..=6, select(vec![100_000usize, 4 * 1024 * 1024])),
        (select(vec![400u64, 2048, 1024 * 1024]), select(vec![128usize, 4096])),
        prop::collection::vec((sel(), v()), 1..4),
        any::<bool>(),
    )
        .prop_map(move |((k, r, memtable), (file, block), after, reuse_last)| {
            let mut o = vec![];
            if reopens {
                o.push(Op::Reopen(Cfg { memtable, file, block, reuse: false }));
            }
            // a third of the chunks re-open the (short) log for appending first and only then fill the
            // block up to its last few bytes: the re-opened writer has to know where in the block it is
            let tail_after_reopen = reopens && r % 3 == 0;
            if tail_after_reopen {
                o.push(Op::Put(k, Val { len: 40 + r as u32, compressible: false }));
                o.push(Op::Reopen(Cfg { memtable, file, block, reuse: true }));
            }
            o.push(Op::PutTail(k, r));
            // half of the chunks go on writing with the same log writer (it pads the block itself),
            // the other half re-open the log for appending first
            if reopens && reuse_last && !tail_after_reopen {
                o.push(Op::Reopen(Cfg { memtable, file, block, reuse: true }));
            }
            let keys: Vec<Sel> = after.iter().map(|(s, _)| *s).collect();
            for (s, val) in after {
                o.push(Op::Put(s, val));
            }
            if reopens {
                o.push(Op::Reopen(Cfg { memtable, file, block, reuse: reuse_last }));
            }
            for s in keys {
                o.push(Op::Get(s));
            }
            o.push(Op::Get(k));
            o
        })
        .boxed();
    prop_oneof![
        10 => random,
        2 => ladder,
        2 => pile,
        2 => disjoint,
        2 => straddle,
        2 => boundary,
        1 => l0pile,
        1 => waltail,
    ]
    .boxed()
}

pub fn case_strategy(p: &GenParams) -> BoxedStrategy<Case> {
    let max_ops = p.max_ops;
    (
        cfg_strategy(),
        subsequence(key_pool(), p.min_universe..=p.max_universe),
        prop::collection::vec(chunk_strategy(p), 1..=p.max_chunks),
    )
        .prop_map(move |(cfg, universe, chunks)| {
            let mut ops: Vec<Op> = chunks.into_iter().flatten().collect();
            ops.truncate(max_ops);
            Case { cfg, universe, ops }
        })
        .boxed()
}
