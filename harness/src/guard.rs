//! Panic recording and progress-based hang detection.

use crate::memfs::FS_ACTIVITY;
use std::panic;
use std::sync::atomic::{AtomicBool, AtomicU64, Ordering};
use std::sync::{mpsc, Mutex, Once};
use std::time::{Duration, Instant};

#[derive(Clone, Debug)]
pub struct PanicRec {
    pub thread: String,
    pub message: String,
    pub location: String,
}

static PANICS: Mutex<Vec<PanicRec>> = Mutex::new(Vec::new());
static BG_PANICS: AtomicU64 = AtomicU64::new(0);
static HOOK: Once = Once::new();
pub static VERBOSE: AtomicBool = AtomicBool::new(false);
/// Number of harness threads deliberately holding another thread at a scheduling point.
pub static HOLDING: AtomicU64 = AtomicU64::new(0);

/// Install the process-wide panic hook (idempotent).
pub fn install_panic_hook() {
    HOOK.call_once(|| {
        panic::set_hook(Box::new(|info| {
            let thread = std::thread::current()
                .name()
                .unwrap_or("<unnamed>")
                .to_string();
            let message = if let Some(s) = info.payload().downcast_ref::<&str>() {
                s.to_string()
            } else if let Some(s) = info.payload().downcast_ref::<String>() {
                s.clone()
            } else {
                "<non-string panic>".to_string()
            };
            let location = info
                .location()
                .map(|l| format!("{}:{}", l.file(), l.line()))
                .unwrap_or_default();
            // The compaction thread of a database whose `open` failed dies on the closed channel;
            // that database never existed for the caller.
            let orphan_worker = thread.starts_with("raindb-") && message.contains("RecvError");
            if VERBOSE.load(Ordering::Relaxed) {
                eprintln!("[panic] thread={thread} at {location}: {message}");
            }
            if orphan_worker {
                return;
            }
            if thread.starts_with("raindb-") {
                BG_PANICS.fetch_add(1, Ordering::SeqCst);
            }
            let mut p = PANICS.lock().unwrap();
            if p.len() < 1000 {
                p.push(PanicRec {
                    thread,
                    message,
                    location,
                });
            }
        }));
    });
}

pub fn bg_panics() -> u64 {
    BG_PANICS.load(Ordering::SeqCst)
}

pub fn panic_count() -> usize {
    PANICS.lock().unwrap().len()
}

pub fn panics_since(n: usize) -> Vec<PanicRec> {
    let p = PANICS.lock().unwrap();
    p[n.min(p.len())..].to_vec()
}

pub fn activity() -> u64 {
    FS_ACTIVITY.load(Ordering::Relaxed) + raindb::verif::activity()
}

#[derive(Debug)]
pub enum Guarded<R> {
    Done(R),
    /// The case thread itself panicked (message, location)
    Panicked(String),
    /// No progress: (seconds quiet, description)
    Hung(String),
}

/// Quiet period after which a non-returning call is declared hung.
pub const QUIET_SECS: u64 = 20;
/// Override of the quiet period (0 = use QUIET_SECS). Only used while shrinking, where a wrong
/// "still hangs" affects minimality but never a verdict (the minimal case is re-confirmed with the
/// full period).
pub static QUIET_OVERRIDE: AtomicU64 = AtomicU64::new(0);
/// Quiet period when a background thread of the database is known to have panicked.
pub const QUIET_SECS_AFTER_BG_PANIC: u64 = 2;

/// Run `f` on a fresh thread. It is declared hung only if it has not returned and neither the
/// filesystem nor any hook point has been touched for the quiet period and no harness thread is
/// deliberately holding a scheduling point. A hung thread is abandoned (it stays parked).
pub fn run_guarded<F, R>(name: &str, f: F) -> Guarded<R>
where
    F: FnOnce() -> R + Send + 'static,
    R: Send + 'static,
{
    install_panic_hook();
    let (tx, rx) = mpsc::channel();
    let bg0 = bg_panics();
    let p0 = panic_count();
    let handle = std::thread::Builder::new()
        .name(name.to_string())
        .stack_size(16 << 20)
        .spawn(move || {
            let r = panic::catch_unwind(panic::AssertUnwindSafe(f));
            let _ = tx.send(r);
        })
        .expect("spawn case thread");
    let mut last_act = activity();
    // The quiet period is accumulated from the watchdog's own 50 ms ticks, each capped at 250 ms: time
    // during which the whole process (or machine) was frozen - a stopped process, a virtual-machine
    // snapshot - does not count, because the case thread could not make progress then either.
    let mut last_tick = Instant::now();
    let mut quiet_acc = Duration::ZERO;
    loop {
        match rx.recv_timeout(Duration::from_millis(50)) {
            Ok(Ok(r)) => {
                let _ = handle.join();
                return Guarded::Done(r);
            }
            Ok(Err(_)) => {
                let _ = handle.join();
                let ps = panics_since(p0);
                let msg = ps
                    .iter()
                    .map(|p| format!("{} at {}: {}", p.thread, p.location, p.message))
                    .collect::<Vec<_>>()
                    .join(" | ");
                return Guarded::Panicked(msg);
            }
            Err(mpsc::RecvTimeoutError::Timeout) => {
                let dt = last_tick.elapsed().min(Duration::from_millis(250));
                last_tick = Instant::now();
                let a = activity();
                if a != last_act || HOLDING.load(Ordering::SeqCst) > 0 {
                    last_act = a;
                    quiet_acc = Duration::ZERO;
                    continue;
                }
                quiet_acc += dt;
                let quiet = quiet_acc.as_secs();
                let limit = if bg_panics() > bg0 {
                    QUIET_SECS_AFTER_BG_PANIC
                } else {
                    match QUIET_OVERRIDE.load(Ordering::Relaxed) {
                        0 => QUIET_SECS,
                        n => n,
                    }
                };
                if quiet >= limit {
                    let ps = panics_since(p0);
                    let msg = ps
                        .iter()
                        .map(|p| format!("{} at {}: {}", p.thread, p.location, p.message))
                        .collect::<Vec<_>>()
                        .join(" | ");
                    dump_threads_if_asked();
                    return Guarded::Hung(format!(
                        "no filesystem or hook activity for {quiet}s; panics: [{msg}]"
                    ));
                }
            }
            Err(mpsc::RecvTimeoutError::Disconnected) => {
                return Guarded::Panicked("case thread vanished".into());
            }
        }
    }
}

/// Diagnosis aid (never part of a verdict): with VERIF_HANG_DUMP=<dir> set, the stacks of all
/// threads of the hung process are written to <dir>/hang-<pid>-<n>.txt with gdb.
fn dump_threads_if_asked() {
    static N: AtomicU64 = AtomicU64::new(0);
    if let Ok(dir) = std::env::var("VERIF_HANG_DUMP") {
        let n = N.fetch_add(1, Ordering::Relaxed);
        if n >= 3 {
            return;
        }
        let pid = std::process::id();
        let _ = std::fs::create_dir_all(&dir);
        let out = std::process::Command::new("gdb")
            .args(["-p", &pid.to_string(), "-batch", "-ex", "thread apply all bt 25"])
            .output();
        if let Ok(o) = out {
            let _ = std::fs::write(format!("{dir}/hang-{pid}-{n}.txt"), o.stdout);
        }
    }
}
