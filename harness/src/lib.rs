pub mod case;
pub mod checks;
pub mod crash;
pub mod engine;
pub mod gen;
pub mod guard;
pub mod memfs;
pub mod runner;
