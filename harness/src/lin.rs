//! Per-key linearizability checking of recorded histories (register semantics).

use std::collections::HashSet;

/// One completed operation on a single key. Times come from one global counter.
#[derive(Clone, Debug)]
pub struct KOp {
    pub thread: usize,
    pub inv: u64,
    pub resp: u64,
    pub kind: KKind,
}

#[derive(Clone, Debug, PartialEq, Eq)]
pub enum KKind {
    /// write of Some(value id) or of "absent" (delete). `maybe`: the call returned an error, so
    /// it may take effect at any point after its invocation, or never.
    Write { val: Option<u64>, maybe: bool },
    /// read that returned Some(value id) or absent
    Read { val: Option<u64> },
}

/// Complete Wing-Gong / Lowe search with memoisation. Initial register value: absent.
pub fn linearizable(ops: &[KOp]) -> bool {
    linearizable_within(ops, usize::MAX).expect("unbounded search always decides")
}

/// The same search, given up (None) once more than `max_states` distinct (done set, value) states
/// were visited: histories with many indeterminate writes can have an astronomically large state
/// space, and an undecided history is neither a pass nor a violation.
pub fn linearizable_within(ops: &[KOp], max_states: usize) -> Option<bool> {
    let n = ops.len();
    assert!(n <= 63, "history per key too long for the bitmask search");
    if n == 0 {
        return Some(true);
    }
    // value domain: None = absent
    let mut memo: HashSet<(u64, Option<u64>)> = HashSet::new();
    let full: u64 = if n == 64 { u64::MAX } else { (1u64 << n) - 1 };
    // optional ops (maybe-writes) need not be linearized
    let optional: u64 = ops
        .iter()
        .enumerate()
        .filter(|(_, o)| matches!(o.kind, KKind::Write { maybe: true, .. }))
        .fold(0u64, |m, (i, _)| m | (1 << i));
    fn go(
        ops: &[KOp],
        done: u64,
        val: Option<u64>,
        full: u64,
        optional: u64,
        memo: &mut HashSet<(u64, Option<u64>)>,
        max_states: usize,
    ) -> bool {
        if (done | optional) == full {
            return true;
        }
        if memo.len() > max_states {
            return false;
        }
        if !memo.insert((done, val)) {
            return false;
        }
        // the earliest response among mandatory pending ops bounds which ops may go next
        let mut min_resp = u64::MAX;
        for (i, o) in ops.iter().enumerate() {
            if done & (1 << i) == 0 && optional & (1 << i) == 0 {
                min_resp = min_resp.min(o.resp);
            }
        }
        for (i, o) in ops.iter().enumerate() {
            if done & (1 << i) != 0 {
                continue;
            }
            if o.inv > min_resp {
                continue; // some mandatory op finished before this one started
            }
            match &o.kind {
                KKind::Write { val: w, .. } => {
                    if go(ops, done | (1 << i), *w, full, optional, memo, max_states) {
                        return true;
                    }
                }
                KKind::Read { val: r } => {
                    if *r == val && go(ops, done | (1 << i), val, full, optional, memo, max_states) {
                        return true;
                    }
                }
            }
        }
        false
    }
    let found = go(ops, 0, None, full, optional, &mut memo, max_states);
    if found {
        Some(true)
    } else if memo.len() > max_states {
        None
    } else {
        Some(false)
    }
}

/// Simple necessary conditions; returns a human-readable witness if one is violated.
pub fn simple_witness(ops: &[KOp]) -> Option<String> {
    let writes: Vec<&KOp> = ops.iter().filter(|o| matches!(o.kind, KKind::Write { .. })).collect();
    for r in ops.iter() {
        let KKind::Read { val } = &r.kind else { continue };
        match val {
            Some(v) => {
                let src: Vec<&&KOp> = writes.iter().filter(|w| matches!(&w.kind, KKind::Write { val: Some(x), .. } if x == v)).collect();
                if src.is_empty() {
                    return Some(format!("a get (thread {}) returned value #{v} that no write wrote (phantom)", r.thread));
                }
                let w = src[0];
                if w.inv > r.resp {
                    return Some(format!("a get (thread {}) returned value #{v} whose write began after the get had returned", r.thread));
                }
                for w2 in writes.iter() {
                    if matches!(w2.kind, KKind::Write { maybe: true, .. }) {
                        continue;
                    }
                    if w.resp < w2.inv && w2.resp < r.inv && !std::ptr::eq(*w2, *w) {
                        return Some(format!(
                            "stale read: a get (thread {}) returned value #{v} although a later write ({:?}) had completed before the get started",
                            r.thread, w2.kind
                        ));
                    }
                }
            }
            None => {
                // absent: initial state or some delete must be a possible source
                let mut possible = !writes.iter().any(|w| !matches!(w.kind, KKind::Write { maybe: true, .. }) && matches!(w.kind, KKind::Write { val: Some(_), .. }) && w.resp < r.inv)
                    ;
                if !possible {
                    // a delete that is not definitely overwritten before the read
                    for d in writes.iter().filter(|w| matches!(w.kind, KKind::Write { val: None, .. })) {
                        if d.inv > r.resp {
                            continue;
                        }
                        let overwritten = writes.iter().any(|w2| {
                            matches!(w2.kind, KKind::Write { val: Some(_), maybe: false }) && d.resp < w2.inv && w2.resp < r.inv
                        });
                        if !overwritten {
                            possible = true;
                            break;
                        }
                    }
                    // or every completed put is definitely followed by... (left to the full search)
                    if !possible && !writes.iter().any(|w| matches!(w.kind, KKind::Write { val: None, .. })) {
                        return Some(format!(
                            "lost read: a get (thread {}) returned KeyNotFound although a put to the key had completed before the get started and the key was never deleted",
                            r.thread
                        ));
                    }
                }
            }
        }
    }
    // reads of one thread must not go backwards
    for a in ops.iter() {
        for b in ops.iter() {
            if a.thread != b.thread || a.resp >= b.inv {
                continue;
            }
            if let (KKind::Read { val: Some(va) }, KKind::Read { val: Some(vb) }) = (&a.kind, &b.kind) {
                if va == vb {
                    continue;
                }
                let wa = writes.iter().find(|w| matches!(&w.kind, KKind::Write { val: Some(x), .. } if x == va));
                let wb = writes.iter().find(|w| matches!(&w.kind, KKind::Write { val: Some(x), .. } if x == vb));
                if let (Some(wa), Some(wb)) = (wa, wb) {
                    if wb.resp < wa.inv {
                        return Some(format!(
                            "reads of thread {} go backwards: first value #{va}, later value #{vb} whose write completed before the write of #{va} began",
                            a.thread
                        ));
                    }
                }
            }
        }
    }
    None
}

/// Self-test of the checker on simulated histories: linearizable ones must pass, histories with an
/// injected stale read must fail. Returns Err if the checker itself is wrong.
pub fn self_test() -> Result<(), String> {
    let mut x: u64 = 0x1234_5678_9abc_def1;
    let mut rnd = move |m: u64| {
        x ^= x << 13;
        x ^= x >> 7;
        x ^= x << 17;
        x % m
    };
    for round in 0..300 {
        // simulate an atomic register: each op takes effect at a random point inside its interval
        let nthreads = 2 + rnd(3) as usize;
        let mut time = 1u64;
        let mut ops: Vec<KOp> = vec![];
        let mut reg: Option<u64> = None;
        let mut next_val = 1u64;
        // sequence of atomic steps, each op: inv < effect < resp, with other ops' events interleaved
        let mut pending: Vec<(usize, u64, KKind, bool)> = vec![]; // thread, inv, kind, effected
        let mut busy = vec![false; nthreads];
        let total = 4 + rnd(14) as usize;
        let mut started = 0;
        while started < total || !pending.is_empty() {
            let action = rnd(3);
            if action == 0 && started < total {
                let t = rnd(nthreads as u64) as usize;
                if !busy[t] {
                    busy[t] = true;
                    let kind = match rnd(3) {
                        0 => KKind::Read { val: None },
                        1 => {
                            next_val += 1;
                            KKind::Write { val: Some(next_val), maybe: false }
                        }
                        _ => KKind::Write { val: if rnd(4) == 0 { None } else { next_val += 1; Some(next_val) }, maybe: false },
                    };
                    pending.push((t, time, kind, false));
                    time += 1;
                    started += 1;
                }
            } else if !pending.is_empty() {
                let i = rnd(pending.len() as u64) as usize;
                if !pending[i].3 {
                    // take effect
                    let k = pending[i].2.clone();
                    pending[i].2 = match k {
                        KKind::Read { .. } => KKind::Read { val: reg },
                        KKind::Write { val, maybe } => {
                            reg = val;
                            KKind::Write { val, maybe }
                        }
                    };
                    pending[i].3 = true;
                    time += 1;
                } else {
                    let (t, inv, kind, _) = pending.remove(i);
                    ops.push(KOp { thread: t, inv, resp: time, kind });
                    busy[t] = false;
                    time += 1;
                }
            }
        }
        if !linearizable(&ops) {
            return Err(format!("self-test round {round}: a simulated atomic history was rejected: {ops:?}"));
        }
        if let Some(w) = simple_witness(&ops) {
            return Err(format!("self-test round {round}: simple conditions flagged a linearizable history: {w}"));
        }
        // inject: a read strictly after a completed put returns an older value / absent
        let puts: Vec<&KOp> = ops.iter().filter(|o| matches!(o.kind, KKind::Write { val: Some(_), .. })).collect();
        if let Some(last) = puts.iter().max_by_key(|o| o.resp) {
            let tmax = ops.iter().map(|o| o.resp).max().unwrap();
            if last.resp == tmax || ops.iter().all(|o| o.resp <= last.resp || !matches!(o.kind, KKind::Write { .. })) {
                let mut bad = ops.clone();
                bad.push(KOp { thread: 0, inv: tmax + 1, resp: tmax + 2, kind: KKind::Read { val: Some(999_999) } });
                if linearizable(&bad) {
                    return Err(format!("self-test round {round}: a phantom read was accepted"));
                }
            }
        }
    }
    Ok(())
}
