//! Deterministic in-memory filesystem with per-handle cursors, POSIX-like unlink semantics and an
//! optional journal of every mutating call (used to rebuild crash images).

use raindb::fs::{
    FileLock, FileSystem, InMemoryFileSystem, RandomAccessFile, ReadonlyRandomAccessFile,
};
use serde::{Deserialize, Serialize};
use std::collections::{BTreeMap, BTreeSet};
use std::io::{self, Read, Seek, SeekFrom, Write};
use std::path::{Path, PathBuf};
use std::sync::atomic::{AtomicU64, Ordering};
use std::sync::{Arc, Mutex};

/// Process-wide count of filesystem calls (feeds the progress-based watchdog).
pub static FS_ACTIVITY: AtomicU64 = AtomicU64::new(0);

fn tick() {
    FS_ACTIVITY.fetch_add(1, Ordering::Relaxed);
}

#[derive(Clone, Debug, Serialize, Deserialize, PartialEq, Eq)]
pub enum JOp {
    Create { path: String, id: u64 },
    Append {
        id: u64,
        #[serde(with = "crate::case::hexbytes")]
        data: Vec<u8>,
    },
    Rename { from: String, to: String },
    Remove { path: String },
    RemoveAll { path: String },
}

impl JOp {
    pub fn kind(&self) -> &'static str {
        match self {
            JOp::Create { .. } => "create",
            JOp::Append { .. } => "append",
            JOp::Rename { .. } => "rename",
            JOp::Remove { .. } => "remove",
            JOp::RemoveAll { .. } => "remove_all",
        }
    }
}

type FileData = Arc<Mutex<Vec<u8>>>;

#[derive(Default)]
pub struct State {
    pub names: BTreeMap<PathBuf, u64>,
    pub files: BTreeMap<u64, FileData>,
    /// Path each file id was created under (for journal interpretation / reporting).
    pub created_as: BTreeMap<u64, PathBuf>,
    pub dirs: BTreeSet<PathBuf>,
    pub next_id: u64,
    pub journal: Vec<JOp>,
    pub record: bool,
    /// When enabled, every byte range read through `read`/`read_from` is marked per file id.
    pub track_reads: bool,
    pub touched: BTreeMap<u64, Vec<bool>>,
}

pub struct MemFs {
    pub st: Arc<Mutex<State>>,
    locks: InMemoryFileSystem,
}

fn p2s(p: &Path) -> String {
    p.to_string_lossy().to_string()
}

impl MemFs {
    pub fn new(record: bool) -> Self {
        let s = State {
            record,
            ..State::default()
        };
        MemFs {
            st: Arc::new(Mutex::new(s)),
            locks: InMemoryFileSystem::new(),
        }
    }

    pub fn journal_len(&self) -> usize {
        self.st.lock().unwrap().journal.len()
    }

    pub fn journal(&self) -> Vec<JOp> {
        self.st.lock().unwrap().journal.clone()
    }

    pub fn set_record(&self, on: bool) {
        self.st.lock().unwrap().record = on;
    }

    pub fn set_track_reads(&self, on: bool) {
        let mut s = self.st.lock().unwrap();
        s.track_reads = on;
        if !on {
            s.touched.clear();
        }
    }

    /// Was byte `offset` of the file currently named `path` read since tracking was enabled?
    pub fn was_read(&self, path: &str, offset: usize) -> bool {
        let s = self.st.lock().unwrap();
        match s.names.get(Path::new(path)) {
            Some(id) => s
                .touched
                .get(id)
                .map_or(false, |t| t.get(offset).copied().unwrap_or(false)),
            None => false,
        }
    }

    fn apply(s: &mut State, op: &JOp, limit: Option<usize>) {
        match op {
            JOp::Create { path, id } => {
                s.names.insert(PathBuf::from(path), *id);
                s.files.insert(*id, Arc::new(Mutex::new(vec![])));
                s.created_as.insert(*id, PathBuf::from(path));
                if *id >= s.next_id {
                    s.next_id = *id + 1;
                }
            }
            JOp::Append { id, data } => {
                if let Some(f) = s.files.get(id) {
                    let n = limit.unwrap_or(data.len()).min(data.len());
                    f.lock().unwrap().extend_from_slice(&data[..n]);
                }
            }
            JOp::Rename { from, to } => {
                if let Some(id) = s.names.remove(Path::new(from)) {
                    s.names.insert(PathBuf::from(to), id);
                }
            }
            JOp::Remove { path } => {
                s.names.remove(Path::new(path));
            }
            JOp::RemoveAll { path } => {
                let p = PathBuf::from(path);
                let ks: Vec<PathBuf> = s
                    .names
                    .keys()
                    .filter(|k| k.starts_with(&p))
                    .cloned()
                    .collect();
                for k in ks {
                    s.names.remove(&k);
                }
            }
        }
    }

    /// Build a fresh filesystem holding the effect of the first `k` journal entries. If `torn` is
    /// `Some(n)` and entry `k` is an append, only its first `n` bytes are applied in addition.
    pub fn from_journal(j: &[JOp], k: usize, torn: Option<usize>, record: bool) -> MemFs {
        let fs = MemFs::new(false);
        {
            let mut s = fs.st.lock().unwrap();
            for op in &j[..k.min(j.len())] {
                MemFs::apply(&mut s, op, None);
            }
            if let Some(n) = torn {
                if k < j.len() {
                    if let JOp::Append { .. } = &j[k] {
                        MemFs::apply(&mut s, &j[k], Some(n));
                    }
                }
            }
            // Files that no name refers to any more can never be reached again
            let live: BTreeSet<u64> = s.names.values().copied().collect();
            s.files.retain(|id, _| live.contains(id));
            s.record = record;
        }
        fs
    }

    /// Like `from_journal` but files are never removed: `Remove` entries of the prefix are ignored
    /// (a `Create` of an existing path still replaces it). Used as a differential oracle: if a crash
    /// image only recovers correctly when removed files are put back, a needed file was deleted.
    pub fn from_journal_keep_removed(j: &[JOp], k: usize) -> MemFs {
        let fs = MemFs::new(false);
        {
            let mut s = fs.st.lock().unwrap();
            for op in &j[..k.min(j.len())] {
                if let JOp::Remove { path } = op {
                    if path.contains("/wal/") || path.contains("/data/") {
                        continue;
                    }
                }
                MemFs::apply(&mut s, op, None);
            }
        }
        fs
    }

    /// Deep copy of the current image (names and contents); journal and tracking are not copied.
    pub fn clone_image(&self, record: bool) -> MemFs {
        let fs = MemFs::new(false);
        {
            let src = self.st.lock().unwrap();
            let mut dst = fs.st.lock().unwrap();
            for (p, id) in src.names.iter() {
                let data = src.files[id].lock().unwrap().clone();
                dst.names.insert(p.clone(), *id);
                dst.files.insert(*id, Arc::new(Mutex::new(data)));
                dst.created_as.insert(*id, p.clone());
            }
            dst.dirs = src.dirs.clone();
            dst.next_id = src.next_id;
            dst.record = record;
        }
        fs
    }

    /// `(path, length)` of every file, sorted by path.
    pub fn dump(&self) -> Vec<(String, usize)> {
        let s = self.st.lock().unwrap();
        s.names
            .iter()
            .map(|(p, id)| (p2s(p), s.files[id].lock().unwrap().len()))
            .collect()
    }

    pub fn file_names(&self) -> Vec<String> {
        let s = self.st.lock().unwrap();
        s.names.keys().map(|p| p2s(p)).collect()
    }

    pub fn read_file(&self, path: &str) -> Option<Vec<u8>> {
        let s = self.st.lock().unwrap();
        s.names
            .get(Path::new(path))
            .map(|id| s.files[id].lock().unwrap().clone())
    }

    /// Replace the contents of a file (not journalled). Used for corruption/truncation.
    pub fn write_file_raw(&self, path: &str, data: Vec<u8>) {
        let mut s = self.st.lock().unwrap();
        match s.names.get(Path::new(path)).copied() {
            Some(id) => {
                *s.files[&id].lock().unwrap() = data;
            }
            None => {
                let id = s.next_id;
                s.next_id += 1;
                s.names.insert(PathBuf::from(path), id);
                s.created_as.insert(id, PathBuf::from(path));
                s.files.insert(id, Arc::new(Mutex::new(data)));
            }
        }
    }

    pub fn path_of_id(&self, id: u64) -> Option<String> {
        let s = self.st.lock().unwrap();
        s.created_as.get(&id).map(|p| p2s(p))
    }
}

struct Handle {
    data: FileData,
    id: u64,
    cursor: u64,
    st: Arc<Mutex<State>>,
}

impl Handle {
    fn mark(&self, start: usize, n: usize) {
        if n == 0 {
            return;
        }
        let mut s = self.st.lock().unwrap();
        if s.track_reads {
            let t = s.touched.entry(self.id).or_default();
            if t.len() < start + n {
                t.resize(start + n, false);
            }
            for b in &mut t[start..start + n] {
                *b = true;
            }
        }
    }

    fn app(&mut self, b: &[u8]) -> io::Result<usize> {
        tick();
        let mut s = self.st.lock().unwrap();
        if s.record {
            s.journal.push(JOp::Append {
                id: self.id,
                data: b.to_vec(),
            });
        }
        let mut d = self.data.lock().unwrap();
        d.extend_from_slice(b);
        self.cursor = d.len() as u64;
        Ok(b.len())
    }
}

impl Read for Handle {
    fn read(&mut self, b: &mut [u8]) -> io::Result<usize> {
        tick();
        let (c, n) = {
            let d = self.data.lock().unwrap();
            let c = (self.cursor as usize).min(d.len());
            let n = b.len().min(d.len() - c);
            b[..n].copy_from_slice(&d[c..c + n]);
            (c, n)
        };
        self.cursor = (c + n) as u64;
        self.mark(c, n);
        Ok(n)
    }
}

impl Seek for Handle {
    fn seek(&mut self, p: SeekFrom) -> io::Result<u64> {
        tick();
        let len = self.data.lock().unwrap().len() as i64;
        let np = match p {
            SeekFrom::Start(o) => o as i64,
            SeekFrom::Current(o) => self.cursor as i64 + o,
            SeekFrom::End(o) => len + o,
        };
        if np < 0 {
            return Err(io::Error::new(io::ErrorKind::InvalidInput, "negative seek"));
        }
        self.cursor = np as u64;
        Ok(self.cursor)
    }
}

impl Write for Handle {
    fn write(&mut self, b: &[u8]) -> io::Result<usize> {
        if b.is_empty() {
            return Ok(0);
        }
        self.app(b)
    }
    fn flush(&mut self) -> io::Result<()> {
        tick();
        Ok(())
    }
}

impl ReadonlyRandomAccessFile for Handle {
    fn read_from(&self, b: &mut [u8], o: usize) -> io::Result<usize> {
        tick();
        let n = {
            let d = self.data.lock().unwrap();
            if o >= d.len() {
                return Ok(0);
            }
            let n = b.len().min(d.len() - o);
            b[..n].copy_from_slice(&d[o..o + n]);
            n
        };
        self.mark(o, n);
        Ok(n)
    }
    fn len(&self) -> io::Result<u64> {
        tick();
        Ok(self.data.lock().unwrap().len() as u64)
    }
}

impl RandomAccessFile for Handle {
    fn append(&mut self, b: &[u8]) -> io::Result<usize> {
        self.app(b)
    }
}

fn nf(p: &Path) -> io::Error {
    io::Error::new(io::ErrorKind::NotFound, format!("not found {:?}", p))
}

impl FileSystem for MemFs {
    fn get_name(&self) -> String {
        "MemFs".into()
    }

    fn create_dir(&self, p: &Path) -> io::Result<()> {
        tick();
        let mut s = self.st.lock().unwrap();
        if !s.dirs.insert(p.to_path_buf()) {
            return Err(io::Error::new(io::ErrorKind::AlreadyExists, "exists"));
        }
        Ok(())
    }

    fn create_dir_all(&self, p: &Path) -> io::Result<()> {
        tick();
        let mut s = self.st.lock().unwrap();
        let mut cur = PathBuf::new();
        for c in p.components() {
            cur.push(c);
            s.dirs.insert(cur.clone());
        }
        Ok(())
    }

    fn list_dir(&self, p: &Path) -> io::Result<Vec<PathBuf>> {
        tick();
        let s = self.st.lock().unwrap();
        let mut out = BTreeSet::new();
        let mut exists = s.dirs.contains(p);
        for k in s.names.keys().chain(s.dirs.iter()) {
            if k != p && k.starts_with(p) {
                exists = true;
                let rel = k.strip_prefix(p).unwrap();
                let first = rel.components().next().unwrap();
                out.insert(p.join(first));
            }
        }
        if !exists {
            return Err(nf(p));
        }
        Ok(out.into_iter().collect())
    }

    fn open_file(&self, p: &Path) -> io::Result<Box<dyn ReadonlyRandomAccessFile>> {
        tick();
        let s = self.st.lock().unwrap();
        let id = *s.names.get(p).ok_or_else(|| nf(p))?;
        Ok(Box::new(Handle {
            data: s.files[&id].clone(),
            id,
            cursor: 0,
            st: self.st.clone(),
        }))
    }

    fn rename(&self, a: &Path, b: &Path) -> io::Result<()> {
        tick();
        let mut s = self.st.lock().unwrap();
        let id = s.names.remove(a).ok_or_else(|| nf(a))?;
        s.names.insert(b.to_path_buf(), id);
        if s.record {
            s.journal.push(JOp::Rename {
                from: p2s(a),
                to: p2s(b),
            });
        }
        Ok(())
    }

    fn create_file(&self, p: &Path, append: bool) -> io::Result<Box<dyn RandomAccessFile>> {
        tick();
        let mut s = self.st.lock().unwrap();
        if append {
            if let Some(id) = s.names.get(p).cloned() {
                let d = s.files[&id].clone();
                let c = d.lock().unwrap().len() as u64;
                return Ok(Box::new(Handle {
                    data: d,
                    id,
                    cursor: c,
                    st: self.st.clone(),
                }));
            }
        }
        let id = s.next_id;
        s.next_id += 1;
        let d = Arc::new(Mutex::new(vec![]));
        s.files.insert(id, d.clone());
        s.names.insert(p.to_path_buf(), id);
        s.created_as.insert(id, p.to_path_buf());
        if s.record {
            s.journal.push(JOp::Create { path: p2s(p), id });
        }
        Ok(Box::new(Handle {
            data: d,
            id,
            cursor: 0,
            st: self.st.clone(),
        }))
    }

    fn remove_file(&self, p: &Path) -> io::Result<()> {
        tick();
        let mut s = self.st.lock().unwrap();
        s.names.remove(p).ok_or_else(|| nf(p))?;
        if s.record {
            s.journal.push(JOp::Remove { path: p2s(p) });
        }
        Ok(())
    }

    fn remove_dir(&self, p: &Path) -> io::Result<()> {
        tick();
        let mut s = self.st.lock().unwrap();
        if s.names.keys().any(|k| k.starts_with(p)) {
            return Err(io::Error::new(io::ErrorKind::Other, "directory not empty"));
        }
        s.dirs.remove(p);
        Ok(())
    }

    fn remove_dir_all(&self, p: &Path) -> io::Result<()> {
        tick();
        let mut s = self.st.lock().unwrap();
        let ks: Vec<PathBuf> = s
            .names
            .keys()
            .filter(|k| k.starts_with(p))
            .cloned()
            .collect();
        for k in ks {
            s.names.remove(&k);
        }
        let ds: Vec<PathBuf> = s.dirs.iter().filter(|k| k.starts_with(p)).cloned().collect();
        for d in ds {
            s.dirs.remove(&d);
        }
        if s.record {
            s.journal.push(JOp::RemoveAll { path: p2s(p) });
        }
        Ok(())
    }

    fn get_file_size(&self, p: &Path) -> io::Result<u64> {
        tick();
        let s = self.st.lock().unwrap();
        let id = *s.names.get(p).ok_or_else(|| nf(p))?;
        let n = s.files[&id].lock().unwrap().len() as u64;
        Ok(n)
    }

    fn is_dir(&self, p: &Path) -> io::Result<bool> {
        tick();
        let s = self.st.lock().unwrap();
        if s.names.contains_key(p) {
            return Ok(false);
        }
        Ok(s.dirs.contains(p) || s.names.keys().any(|k| k.starts_with(p)))
    }

    fn lock_file(&self, p: &Path) -> io::Result<FileLock> {
        tick();
        self.locks.lock_file(p)
    }
}
