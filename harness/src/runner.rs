//! Worker orchestration, result merging, evidence, known findings.

use serde::{Deserialize, Serialize};
use serde_json::{json, Value};
use std::collections::{BTreeMap, BTreeSet};
use std::path::{Path, PathBuf};
use std::process::{Command, Stdio};
use std::time::Instant;

pub fn verif_root() -> PathBuf {
    if let Ok(p) = std::env::var("VERIF_ROOT") {
        return PathBuf::from(p);
    }
    // harness/target/release/vcheck -> /verif
    let exe = std::env::current_exe().unwrap();
    let mut p = exe.as_path();
    for _ in 0..4 {
        p = p.parent().unwrap_or(Path::new("/verif"));
    }
    if p.join("properties.jsonl").exists() {
        p.to_path_buf()
    } else {
        PathBuf::from("/verif")
    }
}

#[derive(Clone, Copy, Debug, PartialEq, Eq, Serialize, Deserialize)]
pub enum Tier {
    Quick,
    Thorough,
}

impl Tier {
    pub fn name(&self) -> &'static str {
        match self {
            Tier::Quick => "quick",
            Tier::Thorough => "thorough",
        }
    }
    pub fn parse(s: &str) -> Option<Tier> {
        match s {
            "quick" => Some(Tier::Quick),
            "thorough" => Some(Tier::Thorough),
            _ => None,
        }
    }
}

#[derive(Clone, Debug)]
pub struct WorkerCtx {
    pub id: String,
    pub tier: Tier,
    pub seed: u64,
    pub worker: usize,
    pub workers: usize,
}

impl WorkerCtx {
    /// Derived seed for this worker and a sub-stream.
    pub fn derived_seed(&self, stream: u64) -> u64 {
        let mut x = self
            .seed
            .wrapping_mul(0x9E37_79B9_7F4A_7C15)
            .wrapping_add((self.worker as u64 + 1).wrapping_mul(0xD1B5_4A32_D192_ED03))
            .wrapping_add(stream.wrapping_mul(0x94D0_49BB_1331_11EB));
        x ^= x >> 31;
        x = x.wrapping_mul(0xBF58_476D_1CE4_E5B9);
        x ^= x >> 29;
        x
    }
    /// Share of a total quota for this worker.
    pub fn share(&self, total: u64) -> u64 {
        let base = total / self.workers as u64;
        let extra = if (self.worker as u64) < total % self.workers as u64 { 1 } else { 0 };
        base + extra
    }
}

#[derive(Clone, Debug, Default, Serialize, Deserialize)]
pub struct ViolationRec {
    pub replay: String,
    pub message: String,
}

#[derive(Clone, Debug, Default, Serialize, Deserialize)]
pub struct WorkerResult {
    pub evaluations: u64,
    pub nontrivial_hashes: Vec<u64>,
    pub classes: BTreeMap<String, u64>,
    pub samples: Vec<Value>,
    pub violations: Vec<ViolationRec>,
    /// known-finding id -> number of cases attributed to it
    pub excluded_known: BTreeMap<String, u64>,
    pub inconclusive: Vec<String>,
    pub notes: Vec<String>,
    pub exhaustive: Option<bool>,
}

impl WorkerResult {
    pub fn merge(&mut self, o: WorkerResult) {
        self.evaluations += o.evaluations;
        self.nontrivial_hashes.extend(o.nontrivial_hashes);
        for (k, v) in o.classes {
            *self.classes.entry(k).or_insert(0) += v;
        }
        for s in o.samples {
            if self.samples.len() < 5 {
                self.samples.push(s);
            }
        }
        self.violations.extend(o.violations);
        for (k, v) in o.excluded_known {
            *self.excluded_known.entry(k).or_insert(0) += v;
        }
        self.inconclusive.extend(o.inconclusive);
        for n in o.notes {
            if !self.notes.contains(&n) {
                self.notes.push(n);
            }
        }
        self.exhaustive = match (self.exhaustive, o.exhaustive) {
            (None, x) => x,
            (x, None) => x,
            (Some(a), Some(b)) => Some(a && b),
        };
    }
    pub fn bump(&mut self, k: &str) {
        *self.classes.entry(k.to_string()).or_insert(0) += 1;
    }
    pub fn add_classes(&mut self, c: &BTreeMap<String, u64>) {
        for (k, v) in c {
            if *v > 0 {
                *self.classes.entry(k.clone()).or_insert(0) += 1;
            }
        }
    }
}

#[derive(Clone, Debug)]
pub struct KnownFinding {
    pub open: bool,
    pub property: String,
    pub id: String,
    pub signature: String,
    pub replays: Vec<String>,
    pub text: String,
}

/// Parse `KNOWN_FINDINGS.txt`. Lines: `open: property=C15 id=<id> signature=<sig> replay=<path> <text>`
/// or `fixed: property=C10 <commit> <text>`.
pub fn known_findings() -> Vec<KnownFinding> {
    let path = verif_root().join("KNOWN_FINDINGS.txt");
    let Ok(s) = std::fs::read_to_string(path) else { return vec![] };
    let mut out = vec![];
    for line in s.lines() {
        let line = line.trim();
        if line.is_empty() || line.starts_with('#') {
            continue;
        }
        let (open, rest) = if let Some(r) = line.strip_prefix("open:") {
            (true, r.trim())
        } else if let Some(r) = line.strip_prefix("fixed:") {
            (false, r.trim())
        } else {
            continue;
        };
        let mut property = String::new();
        let mut id = String::new();
        let mut signature = String::new();
        let mut replays = vec![];
        let mut text = vec![];
        for tok in rest.split_whitespace() {
            if let Some(v) = tok.strip_prefix("property=") {
                property = v.to_string();
            } else if let Some(v) = tok.strip_prefix("id=") {
                id = v.to_string();
            } else if let Some(v) = tok.strip_prefix("signature=") {
                signature = v.to_string();
            } else if let Some(v) = tok.strip_prefix("replay=") {
                replays.push(v.to_string());
            } else {
                text.push(tok);
            }
        }
        out.push(KnownFinding {
            open,
            property,
            id,
            signature,
            replays,
            text: text.join(" "),
        });
    }
    out
}

pub fn open_findings_for(prop: &str) -> Vec<KnownFinding> {
    known_findings()
        .into_iter()
        .filter(|k| k.open && k.property == prop)
        .collect()
}

pub struct CheckMeta {
    pub id: &'static str,
    pub level: &'static str,
    pub rule: String,
    pub assumptions: Vec<String>,
}

pub fn write_replay(id: &str, seed: u64, worker: usize, n: usize, body: &Value) -> String {
    let dir = verif_root().join("replays");
    let _ = std::fs::create_dir_all(&dir);
    let path = dir.join(format!("{id}-{seed}-{worker}-{n}.json"));
    std::fs::write(&path, serde_json::to_string_pretty(body).unwrap()).unwrap();
    path.to_string_lossy().to_string()
}

/// Parent side: spawn the workers, merge, write evidence, print verdict lines. Returns the exit code.
pub fn run_parent(
    meta: &CheckMeta,
    tier: Tier,
    seed: u64,
    regress: &dyn Fn(&Path) -> Result<(), String>,
) -> i32 {
    let t0 = Instant::now();
    let root = verif_root();
    let id = meta.id;
    let mut merged = WorkerResult::default();
    let mut exit_inconclusive = false;

    // 1. replay tier: committed regression cases of this property
    let rdir = root.join("regress").join(id);
    let known = open_findings_for(id);
    let known_replays: BTreeSet<String> = known.iter().flat_map(|k| k.replays.clone()).collect();
    let mut regress_failures: Vec<(String, String)> = vec![];
    let mut regress_run = 0u64;
    if let Ok(rd) = std::fs::read_dir(&rdir) {
        let mut files: Vec<PathBuf> = rd.filter_map(|e| e.ok().map(|e| e.path())).collect();
        files.sort();
        for f in files {
            if f.extension().map_or(true, |e| e != "json") {
                continue;
            }
            regress_run += 1;
            let rel = f.strip_prefix(&root).unwrap_or(&f).to_string_lossy().to_string();
            match regress(&f) {
                Ok(()) => {
                    if known_replays.contains(&rel) {
                        merged.notes.push(format!("known finding replay {rel} no longer fails"));
                    }
                }
                Err(msg) => {
                    if known_replays.contains(&rel) {
                        // expected: listed as an open known finding
                    } else {
                        regress_failures.push((rel, msg));
                    }
                }
            }
        }
    }
    merged.classes.insert("regress_replayed".into(), regress_run);

    // 2. generated campaign in worker processes
    let workers: usize = std::env::var("VERIF_WORKERS")
        .ok()
        .and_then(|s| s.parse().ok())
        .unwrap_or_else(|| std::thread::available_parallelism().map(|n| n.get()).unwrap_or(4).min(16));
    let exe = std::env::current_exe().unwrap();
    let tmp = root.join("replays").join(format!(".work-{id}-{}", std::process::id()));
    let _ = std::fs::create_dir_all(&tmp);
    let mut children = vec![];
    for w in 0..workers {
        let out = tmp.join(format!("w{w}.json"));
        let child = Command::new(&exe)
            .arg("worker")
            .arg(id)
            .arg(tier.name())
            .arg(seed.to_string())
            .arg(w.to_string())
            .arg(workers.to_string())
            .arg(&out)
            .stdin(Stdio::null())
            .stdout(Stdio::inherit())
            .stderr(Stdio::inherit())
            .spawn()
            .expect("spawn worker");
        children.push((w, child, out));
    }
    for (w, mut child, out) in children {
        let status = child.wait().expect("wait worker");
        match std::fs::read_to_string(&out)
            .ok()
            .and_then(|s| serde_json::from_str::<WorkerResult>(&s).ok())
        {
            Some(r) => merged.merge(r),
            None => {
                merged
                    .inconclusive
                    .push(format!("worker {w} produced no result (status {status})"));
                exit_inconclusive = true;
            }
        }
    }
    let _ = std::fs::remove_dir_all(&tmp);

    // 2b. coverage-guided stage (thorough tier only)
    if tier == Tier::Thorough && merged.violations.is_empty() {
        fuzz_stage(id, seed, workers, &mut merged);
    }

    // 3. verdict
    let distinct: BTreeSet<u64> = merged.nontrivial_hashes.iter().copied().collect();
    let mut violations = merged.violations.clone();
    for (rel, msg) in &regress_failures {
        violations.push(ViolationRec {
            replay: rel.clone(),
            message: format!("regression replay fails: {msg}"),
        });
    }
    for k in &known {
        let hits = merged.excluded_known.get(&k.id).copied().unwrap_or(0);
        println!(
            "KNOWN-FINDING: property={} id={} {} (cases attributed in this run: {})",
            k.property, k.id, k.text, hits
        );
    }
    for v in &violations {
        println!("VIOLATION property={} replay={}", id, v.replay);
        println!("  {}", v.message.replace('\n', "\n  "));
    }
    if !merged.inconclusive.is_empty() {
        exit_inconclusive = true;
        for m in merged.inconclusive.iter().take(10) {
            println!("INCONCLUSIVE property={id} {m}");
        }
    }
    let wall = t0.elapsed().as_secs_f64();
    let mut coverage = json!({
        "evaluations": merged.evaluations,
        "distinct_nontrivial": distinct.len(),
        "rule": meta.rule,
        "samples": merged.samples,
        "classes": merged.classes,
        "excluded_known": merged.excluded_known,
        "inconclusive": merged.inconclusive.len(),
        "regress_replayed": regress_run,
        "workers": workers,
        "notes": merged.notes,
    });
    if let Some(e) = merged.exhaustive {
        coverage["exhaustive"] = json!(e);
    }
    let evidence = json!({
        "property_id": id,
        "tier": tier.name(),
        "seed": seed,
        "level": meta.level,
        "coverage": coverage,
        "assumptions": meta.assumptions,
        "wall_s": wall,
        "violations": violations.len(),
    });
    let edir = root.join("evidence");
    let _ = std::fs::create_dir_all(&edir);
    std::fs::write(
        edir.join(format!("{id}.json")),
        serde_json::to_string_pretty(&evidence).unwrap(),
    )
    .unwrap();
    println!(
        "{id} {}: evaluations={} distinct_nontrivial={} violations={} excluded_known={} wall={:.1}s",
        tier.name(),
        merged.evaluations,
        distinct.len(),
        violations.len(),
        merged.excluded_known.values().sum::<u64>(),
        wall
    );
    if !violations.is_empty() {
        1
    } else if exit_inconclusive {
        2
    } else {
        0
    }
}

/// Thorough tier, second engine: libFuzzer targets (fuzz/) decode bytes into the same case types
/// and run the same interpreters and oracles. Crash artifacts are decoded by this binary and
/// re-executed; only a reproduced failure becomes a violation (with a normal replay file).
fn fuzz_stage(id: &str, seed: u64, workers: usize, merged: &mut WorkerResult) {
    let (target, engine) = match id {
        "C12" => ("fuzz_log", "logfmt"),
        "C13" | "C14" => ("fuzz_table", "tablefmt"),
        "C01" | "C03" | "C04" | "C10" => ("fuzz_history", "history"),
        _ => return,
    };
    let root = verif_root();
    let runs: u64 = std::env::var("VERIF_FUZZ_RUNS").ok().and_then(|s| s.parse().ok()).unwrap_or(match target {
        "fuzz_history" => 12_000,
        _ => 25_000,
    });
    let build = Command::new("cargo")
        .args(["+nightly", "fuzz", "build", "--fuzz-dir"])
        .arg(root.join("fuzz"))
        .arg(target)
        .current_dir(root.join("harness"))
        .env("CARGO_NET_OFFLINE", "true")
        .stdout(Stdio::null())
        .stderr(Stdio::piped())
        .output();
    match &build {
        Ok(o) if o.status.success() => {}
        Ok(o) => {
            let err = String::from_utf8_lossy(&o.stderr);
            merged.notes.push(format!("fuzz stage skipped: cargo +nightly fuzz build failed: {}", err.lines().rev().take(3).collect::<Vec<_>>().join(" | ")));
            return;
        }
        Err(e) => {
            merged.notes.push(format!("fuzz stage skipped: cargo fuzz not runnable: {e}"));
            return;
        }
    }
    let bin = root.join("fuzz/target/x86_64-unknown-linux-gnu/release").join(target);
    let work = root.join("fuzz").join(format!("run-{id}-{}", std::process::id()));
    let _ = std::fs::remove_dir_all(&work);
    let n = workers.min(8).max(1);
    let mut children = vec![];
    for w in 0..n {
        let corpus = work.join(format!("corpus{w}"));
        let arts = work.join(format!("artifacts{w}"));
        let _ = std::fs::create_dir_all(&corpus);
        let _ = std::fs::create_dir_all(&arts);
        // seed corpus: pseudo-random inputs of several lengths (a pure function of the seed)
        let mut x = seed.wrapping_mul(0x9E37_79B9_7F4A_7C15).wrapping_add(w as u64 + 1) | 1;
        for i in 0..24usize {
            let len = [16usize, 48, 96, 200, 400, 800][i % 6];
            let mut buf = Vec::with_capacity(len);
            while buf.len() < len {
                x ^= x << 13;
                x ^= x >> 7;
                x ^= x << 17;
                buf.extend_from_slice(&x.to_le_bytes());
            }
            let _ = std::fs::write(corpus.join(format!("seed{i}")), &buf[..len]);
        }
        let oracle = match id {
            "C03" => "c03",
            "C04" => "c04",
            "C10" => "c10",
            _ => "c01",
        };
        let child = Command::new(&bin)
            .arg(&corpus)
            .arg(format!("-runs={}", runs / n as u64))
            .arg(format!("-seed={}", seed.wrapping_mul(31).wrapping_add(w as u64 + 1) % 2_000_000_000 + 1))
            .arg("-len_control=0")
            .arg("-max_len=1200")
            .arg("-detect_leaks=0")
            .arg(format!("-artifact_prefix={}/", arts.display()))
            .env("VERIF_FUZZ_ORACLE", oracle)
            .current_dir(&work)
            .stdout(Stdio::null())
            .stderr(Stdio::piped())
            .spawn();
        if let Ok(c) = child {
            children.push((w, c, arts));
        }
    }
    let mut total_runs = 0u64;
    let mut cov = 0u64;
    let mut crashes: Vec<PathBuf> = vec![];
    for (_w, c, arts) in children {
        if let Ok(out) = c.wait_with_output() {
            let err = String::from_utf8_lossy(&out.stderr);
            for l in err.lines() {
                if let Some(rest) = l.strip_prefix("Done ") {
                    total_runs += rest.split(' ').next().and_then(|s| s.parse::<u64>().ok()).unwrap_or(0);
                }
                if l.contains("DONE") && l.contains("cov:") {
                    if let Some(c) = l.split("cov: ").nth(1).and_then(|s| s.split(' ').next()).and_then(|s| s.parse::<u64>().ok()) {
                        cov = cov.max(c);
                    }
                }
            }
        }
        if let Ok(rd) = std::fs::read_dir(&arts) {
            for e in rd.flatten() {
                crashes.push(e.path());
            }
        }
    }
    merged.classes.insert("fuzz_executions".into(), total_runs);
    merged.classes.insert("fuzz_edge_coverage".into(), cov);
    merged.evaluations += total_runs;
    merged.notes.push(format!("fuzz stage: target {target}, {total_runs} executions over {n} processes, {} crash artifacts", crashes.len()));
    crashes.sort();
    for art in crashes.iter().take(5) {
        let Ok(bytes) = std::fs::read(art) else { continue };
        let body = crate::checks::fuzz_artifact_to_replay(id, engine, &bytes);
        match crate::checks::replay_value(&body) {
            Ok(()) => merged.notes.push(format!("fuzz artifact {} did not reproduce through the replay path", art.display())),
            Err(msg) => {
                let path = write_replay(id, seed, 99, 0, &body);
                merged.violations.push(ViolationRec { replay: path, message: format!("(found by the libFuzzer target {target}) {msg}") });
                break;
            }
        }
    }
    let _ = std::fs::remove_dir_all(&work);
}
