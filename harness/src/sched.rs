//! Forced schedules: hold a thread at a hook point until the other client threads are done (or a
//! safety timeout, which only affects coverage).

use crate::guard::HOLDING;
use serde::{Deserialize, Serialize};
use std::cell::Cell;
use std::collections::HashMap;
use std::sync::atomic::{AtomicBool, AtomicU64, Ordering};
use std::sync::{Arc, Mutex};
use std::time::{Duration, Instant};

pub const POINTS: &[&str] = &[
    "get.unlocked",
    "get.before_version",
    "write.before_wal",
    "write.after_wal",
    "write.mid_memtable",
    "write.after_memtable",
    "flush.before_build",
    "manifest.before_append",
    "manifest.after_append",
    "compaction.step",
    "gc.before_delete",
    "gc.after_delete",
    "worker.tasks_drained",
    "lock.after_open",
];

/// role -1 = a database background thread, >= 0 = client thread index
#[derive(Clone, Debug, Serialize, Deserialize, PartialEq, Eq, Hash)]
pub struct Directive {
    pub role: i32,
    pub point: String,
    /// hold at the n-th hit (0-based) of that point by that role
    pub nth: u32,
    pub max_hold_ms: u32,
    /// keep holding for this long after all other clients are done (the harness closes the
    /// database right after the clients finish, so the held thread resumes inside the close)
    #[serde(default)]
    pub linger_ms: u32,
    /// 0: hold at the n-th hit only; k > 0: hold at hit n and at every k-th hit after it
    #[serde(default)]
    pub every: u32,
}

pub struct SchedState {
    pub directives: Vec<Directive>,
    hits: Mutex<HashMap<(i32, &'static str), u32>>,
    pub done: Vec<AtomicBool>,
    pub fired: Mutex<Vec<(usize, u64)>>,
    pub hold_count: AtomicU64,
    /// set while some writer is held strictly inside apply (C06 non-triviality)
    pub writer_held: AtomicBool,
}

thread_local! {
    static ROLE: Cell<i32> = const { Cell::new(i32::MIN) };
}

pub fn set_role(r: i32) {
    ROLE.with(|c| c.set(r));
}

fn role() -> i32 {
    ROLE.with(|c| {
        let r = c.get();
        if r != i32::MIN {
            return r;
        }
        let r = if std::thread::current().name().map_or(false, |n| n.starts_with("raindb-")) { -1 } else { -2 };
        c.set(r);
        r
    })
}

static CURRENT: Mutex<Option<Arc<SchedState>>> = Mutex::new(None);

impl SchedState {
    pub fn new(directives: Vec<Directive>, clients: usize) -> Arc<Self> {
        Arc::new(SchedState {
            directives,
            hits: Mutex::new(HashMap::new()),
            done: (0..clients).map(|_| AtomicBool::new(false)).collect(),
            fired: Mutex::new(vec![]),
            hold_count: AtomicU64::new(0),
            writer_held: AtomicBool::new(false),
        })
    }

    fn others_done(&self, me: i32) -> bool {
        self.done
            .iter()
            .enumerate()
            .all(|(i, d)| i as i32 == me || d.load(Ordering::SeqCst))
    }
}

/// Install the schedule for the current case (process-global: one case at a time per process).
pub fn install(st: Arc<SchedState>) {
    *CURRENT.lock().unwrap() = Some(st);
    raindb::verif::set_point_callback(Some(Arc::new(on_point)));
}

pub fn uninstall() {
    raindb::verif::set_point_callback(None);
    *CURRENT.lock().unwrap() = None;
}

fn on_point(name: &'static str) {
    let st = match CURRENT.lock().unwrap().clone() {
        Some(s) => s,
        None => return,
    };
    let me = role();
    if me == -2 {
        return;
    }
    let n = {
        let mut h = st.hits.lock().unwrap();
        let e = h.entry((me, name)).or_insert(0);
        let n = *e;
        *e += 1;
        n
    };
    for (di, d) in st.directives.iter().enumerate() {
        if d.role == me && d.point == name && (d.nth == n || (d.every > 0 && n > d.nth && (n - d.nth) % d.every == 0)) {
            HOLDING.fetch_add(1, Ordering::SeqCst);
            st.hold_count.fetch_add(1, Ordering::SeqCst);
            let in_apply = name.starts_with("write.") && name != "write.before_wal";
            if in_apply {
                st.writer_held.store(true, Ordering::SeqCst);
            }
            let t0 = Instant::now();
            let max = Duration::from_millis(d.max_hold_ms as u64);
            while !st.others_done(me) && t0.elapsed() < max {
                std::thread::sleep(Duration::from_micros(200));
            }
            if d.linger_ms > 0 && st.others_done(me) {
                std::thread::sleep(Duration::from_millis(d.linger_ms as u64));
            }
            if in_apply {
                st.writer_held.store(false, Ordering::SeqCst);
            }
            st.fired.lock().unwrap().push((di, t0.elapsed().as_micros() as u64));
            HOLDING.fetch_sub(1, Ordering::SeqCst);
        }
    }
}
