#!/usr/bin/env python3
"""Sensitivity to the defects found here: for every 'fixed:' entry of KNOWN_FINDINGS.txt the repair is taken
away again (fix commit reverse-applied in the isolated worktree MX_REPO) and the quick tier of the entry's
property is run; it must report a violation. Results: /tmp/mx/fix_reverts.json
  MX_REPO=/tmp/mx/repo MX_VERIF=/tmp/mx/verif python3 tools/check_fix_reverts.py [commit ...]"""
import os, re, subprocess, sys, json
REPO = os.environ.get("MX_REPO", "/tmp/mx/repo")
VERIF = os.environ.get("MX_VERIF", "/tmp/mx/verif")
only = set(sys.argv[1:])
def sh(cmd, cwd=None, timeout=2400):
    p = subprocess.run(cmd, shell=True, cwd=cwd, capture_output=True, text=True, timeout=timeout)
    return p.returncode, p.stdout + p.stderr
out = []
for line in open("/verif/KNOWN_FINDINGS.txt"):
    m = re.match(r"fixed: property=(C\d+) ([0-9a-f]{7}) (.*)", line)
    if not m: continue
    prop, commit, text = m.groups()
    if only and commit not in only: continue
    sh("git reset -q --hard HEAD", cwd=REPO)
    rc, o = sh(f"git diff {commit}~1 {commit} | git apply -R --3way - || git diff {commit}~1 {commit} | git apply -R -", cwd=REPO)
    sh("git reset -q", cwd=REPO)
    if rc != 0:
        sh("git reset -q --hard HEAD", cwd=REPO)
        out.append({"property": prop, "commit": commit, "result": "fix cannot be reverse-applied on top of the later fixes"}); print(prop, commit, "cannot revert", flush=True); continue
    rc, o = sh(f"bin/check {prop} quick", cwd=VERIF)
    viol = re.findall(r"^VIOLATION property=\S+ replay=(\S+)\n\s+(.*)$", o, re.M)
    res = {"property": prop, "commit": commit, "exit": rc, "violations": len(viol), "first": (viol[0][1][:200] if viol else ""), "replay": (viol[0][0] if viol else "")}
    if "INCONCLUSIVE build" in o: res["result"] = "harness does not build without the fix"
    out.append(res); print(prop, commit, "exit", rc, len(viol), res["first"][:120], flush=True)
    sh("git reset -q --hard HEAD", cwd=REPO)
json.dump(out, open("/tmp/mx/fix_reverts.json", "w"), indent=1)
print("done")
