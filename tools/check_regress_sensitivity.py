#!/usr/bin/env python3
"""For every 'fixed:' entry of KNOWN_FINDINGS.txt: take the repair away again (reverse-apply the fix
commit in the isolated worktree MX_REPO) and replay the regression cases the entry names; each must report
the violation again. Run from the isolated copy:
  MX_REPO=/tmp/mx/repo MX_VERIF=/tmp/mx/verif python3 tools/check_regress_sensitivity.py"""
import os, re, subprocess, sys, json
REPO = os.environ.get("MX_REPO", "/tmp/mx/repo")
VERIF = os.environ.get("MX_VERIF", "/tmp/mx/verif")
def sh(cmd, cwd=None, timeout=1800):
    p = subprocess.run(cmd, shell=True, cwd=cwd, capture_output=True, text=True, timeout=timeout)
    return p.returncode, p.stdout + p.stderr
out = []
for line in open("/verif/KNOWN_FINDINGS.txt"):
    m = re.match(r"fixed: property=(C\d+) ([0-9a-f]{7}) (.*)", line)
    if not m: continue
    prop, commit, text = m.groups()
    replays = re.findall(r"(regress/[\w/.\-]+\.json)", text)
    if not replays:
        out.append((prop, commit, "-", "no replay named")); continue
    sh("git checkout -q -- .", cwd=REPO)
    rc, o = sh(f"git diff {commit}~1 {commit} | git apply -R --3way - || git diff {commit}~1 {commit} | git apply -R -", cwd=REPO)
    sh("git reset -q", cwd=REPO)
    if rc != 0:
        sh("git reset -q --hard HEAD", cwd=REPO)
        out.append((prop, commit, "-", "fix cannot be reverse-applied on top of the later fixes")); continue
    rc, o = sh("cargo build --offline 2>&1 | tail -3", cwd=REPO)
    for r in replays:
        rc, o = sh(f"bin/check replay {r}", cwd=VERIF, timeout=1500)
        verdict = "VIOLATION again" if "VIOLATION" in o else ("build failed" if "INCONCLUSIVE build" in o else "passed (not sensitive)")
        out.append((prop, commit, r, verdict))
        print(prop, commit, r, verdict, flush=True)
    sh("git reset -q --hard HEAD", cwd=REPO)
json.dump(out, open("/tmp/mx/regress_sensitivity.json", "w"), indent=1)
print("done")
