#!/usr/bin/env python3
"""Regenerates /verif/MANIFEST.json from the table below. Run after adding or removing a check."""
import json, os, subprocess
ROOT = os.path.dirname(os.path.dirname(os.path.abspath(__file__)))

BASELINE_OFF = "cd /repo && cargo nextest run --workspace --no-fail-fast --tool-config-file pb:/w/lib/nextest.toml --profile pb --test-threads 8 --offline || cargo test --workspace --no-fail-fast --offline"

CHECKS = {
 "C01": dict(cat="exploration", ref="2 (C01)", technique="model-based stateful property testing (proptest-generated histories vs BTreeMap model, shrunk replay)",
   text="Generated-input search: thousands of proptest histories over tiny memtable/file/block configs (re-drawn at reopen) build 3+ level LSM shapes; every get at the latest state is compared with a reference map. Exploration is the right level: the property quantifies over unbounded histories x configs, so absence cannot be established, but the generator reaches the shapes (multi-file levels under several L0 files, manifest rewrite on reopen, non-shortenable keys) that the repo's tests never build.",
   note="Trusted: harness MemFs, the reference model, proptest. Background compaction timing varies between runs; oracles are schedule independent. Hook feature only adds code."),
 "C03": dict(cat="exploration", ref="2 (C03)", technique="model-based stateful property testing with frozen per-snapshot models",
   text="Histories with up to 4 live snapshots and 3 live iterators that outlive arbitrary later writes, flushes, manual/automatic/seek compactions and obsolete-file deletion; get and full scan at each snapshot must equal the map frozen at its creation and agree with each other; aged iterators are stepped as cursors over their frozen map.",
   note="Reader-paused-while-compaction-runs interleavings are explored by the concurrency checks (C05/C11 schedules); here the schedule is natural. Trusted: MemFs, model."),
 "C04": dict(cat="exploration", ref="2 (C04)", technique="model-based property testing of cursor programs against a sorted-map cursor",
   text="Generated cursor programs (seek_to_first/last, seek to present/absent/out-of-range targets, next, prev, reversals weighted up) over multi-level LSM shapes; after every step validity, current key/value and the return value of next/prev are compared with a cursor over the sorted visible map.",
   note="next/prev are only issued on a valid iterator (they assert validity; every caller in the repository checks first). Trusted: MemFs, model."),
 "C05": dict(cat="exploration", ref="4 (C05)", technique="generated concurrent programs under generated forced schedules (hook points) and natural schedules; recorded histories decided by a complete per-key linearizability search",
   text="2-4 client threads run generated put/delete/batch/get/flush programs on a 512-1500 byte memtable while 1-4 generated directives hold a chosen thread (client or background) at a chosen hook point until the others finish; every operation is stamped with a global counter and each key's history, closed by a quiescent final read, is checked by a complete Wing-Gong/Lowe search (self-tested before each run).",
   note="Windows that do not cross a hook point are only reached by natural schedules. A third campaign injects one sticky WAL-write failure under forced group commits and treats writes that returned Err as indeterminate operations in the search."),
 "C06": dict(cat="exploration", ref="4 (C06)", technique="generated writer/reader programs under forced schedules holding a writer inside apply; invariant: each batch group is uniform at every read point",
   text="Writers apply whole-group batches (also batches writing each key twice, and whole-group deletes) while generated directives hold them before the WAL append, after it, between memtable insertions and after the last insertion; readers keep taking snapshots, iterators and plain gets meanwhile. Every sequence-consistent read must see each group uniform (all keys the same batch, or all absent), counters never go backwards for a reader, and no read may return a value that the same batch overwrites.",
   note="Holds are bounded by a 15-90 ms timeout (queued writers cannot finish while the head writer is held); the timeout affects coverage only."),
 "C07": dict(cat="exploration", ref="2 (C07)", technique="metamorphic property testing (dump before == dump after flush/compaction) plus model comparison",
   text="Metamorphic relation: the full contents (scan + point gets at the latest state and at every live snapshot) taken immediately before a flush / compact_range / background-compaction wait / seek-compaction trigger must be identical afterwards, and equal to the model.",
   note="Trusted: MemFs, model; quiescence is observed through the verif_wait_idle hook."),
 "C09": dict(cat="exploration", ref="4 (C09)", technique="generated workloads under a progress-based watchdog (no fs/hook activity for 20 s) plus panic recording on database threads",
   text="Every public operation incl. all descriptors under every generated config and history; sustained multi-threaded writers that reach the memtable-full wait, L0 slowdown and L0 stop; close while background work is pending. A call is non-returning only if neither the filesystem nor any hook point moved for 20 s; any panic on a raindb-* thread of an open database is a violation.",
   note="A livelock that keeps issuing filesystem calls would be reported as inconclusive (exit 2), not as a violation. Liveness is attacked as absence of quiescent non-returning calls."),
 "C10": dict(cat="exploration", ref="2 (C10)", technique="invariant checking over generated histories (structural well-formedness + descriptor/file cross-check)",
   text="At every quiescent moment of generated histories (after flush/compaction/wait, after every reopen) the SSTables/NumFilesAtLevel descriptors are cross-checked with the structural layout, levels>=1 must be ordered and disjoint, smallest<=largest, no duplicate file numbers, and the recorded bounds must equal the first/last entry stored in each table file; live snapshots make compactions retain older versions at the end of their outputs.",
   note="Trusted: verif_layout hook returns the current version's metadata verbatim; MemFs."),
 "C11": dict(cat="exploration", ref="2 (C11)", technique="invariant checking over generated histories (directory listing == needed files after quiescence; no read fails on a missing file)",
   text="Histories with iterators/snapshots pinning versions across compactions; reads must never fail on a missing file; after releasing everything, one flush (the reclamation opportunity) and quiescence the directory must hold exactly CURRENT, the current manifest, the active WAL and the current version's tables.",
   note="The lazy window before the next flush/compaction/open is by design (LevelDB heritage) and not flagged. Crash-image orphans are checked by the C02 engine."),
 "C02": dict(cat="fault_enumeration", ref="3 (C02)", technique="crash-point enumeration over journalled generated workloads (every journal prefix recovered and compared with the acknowledged/in-flight states)",
   text="Each proptest-generated write workload runs on a journalling MemFs; every prefix of its totally ordered mutating filesystem calls is rebuilt as a crash image, recovered with varied reuse_log_files/config, compared with the acknowledged state (+ optionally the whole in-flight batch), then written to, closed, reopened and compared again; a sample of recoveries is itself crashed (depth 2). A second campaign records workloads of 2-3 concurrent writers over disjoint key groups (writers held around the WAL append so that group commits form, synchronous and plain writes mixed): there the acceptable states are every thread's acknowledged prefix plus all-or-nothing of each thread's in-flight batch. Enumeration of all crash points of a workload is complete (quick: for journals <= 400 entries); the workloads are a generated sample.",
   note="Crash model: every completed filesystem call is durable, nothing else is (process crash, no page-cache loss); torn calls are C16."),
 "C08": dict(cat="fault_enumeration", ref="3 (C08)", technique="single-fault enumeration over the filesystem call stream of generated workloads (transient and sticky), oracle = acknowledged-writes model with all-or-nothing maybe-set",
   text="Every filesystem call of a generated workload (after the initial open; create, write/append, flush, rename, remove, open-for-read, read, size, list) is failed once (transient) and persistently (sticky), writes/appends also in a third mode that leaves the first half of the buffer in the file; during the run each read must return an allowed value or an error, writes that returned Ok are in the model, failed writes form an all-or-nothing maybe-set, no call may hang; scans that open the tables themselves (cold table cache after a reopen) and seek walks that retry a failed seek on the same iterator must stand on an allowed pair and must not skip an acknowledged key unless an error is reported; after disarming, close/reopen must succeed and the contents must equal the acknowledged writes plus all-or-nothing of the failed ones. Quick enumerates all positions for runs <= 600 calls.",
   note="Failures have no side effect on the file (partial writes are C16). Scans are judged through the iterator status channel (take_error): a scan that stops early with an error is an error report, one that stops early without is a violation."),
 "C12": dict(cat="exploration", ref="5 (C12)", technique="round-trip property testing of LogWriter/LogReader with an enumerated block-boundary family",
   text="Round-trip through the real LogWriter/LogReader over generated record-length lists, writer re-open points, writer death between fragments and final truncation at any byte, with an independent model of the block layout; the block-boundary arithmetic (offsets within 20 bytes of a boundary x lengths within 20 bytes of the remaining room) is enumerated completely in the thorough tier.",
   note="Reached through wrappers in src/verif.rs; checksum corruption is C15's subject, not C12's."),
 "C13": dict(cat="exploration", ref="5 (C13)", technique="round-trip property testing of TableBuilder/Table against the sorted entry list (iteration, seek, point lookup, cursor walks)",
   text="Generated sorted runs of internal entries over the special-shape key pool and block sizes from 1 byte to 1 MiB are written by the real TableBuilder and read back by the real Table/TwoLevelIterator: block contents, forward/backward iteration, seek to every entry/between/before/after, get(user key, bound) -> value/deleted/not-in-file, and random cursor walks are compared with the entry list.",
   note="Reached through wrappers in src/verif.rs. Values up to ~6 kB; larger multi-block values are exercised through the database-level checks."),
 "C14": dict(cat="exploration", ref="5 (C14)", technique="property testing of filter membership (public policy API; table filter blocks with Bloom and an exact-set policy)",
   text="Policy level: every member of generated key sets (0-3000 keys, bits_per_key 1-64) and of an exhaustive length x bits family must answer may-match. Table level: for every data block offset and every user key in that block the table's filter block must answer may-match, with the Bloom policy and with an exact-set policy that turns builder/reader range disagreements into deterministic false negatives. Layout level: synthetic block layouts (blocks sharing a 2 KiB filter range, blocks spanning many ranges, offsets around 2 GiB and beyond 4 GiB) are fed straight to the filter block builder and reader through a guarded wrapper.",
   note="False positives are allowed by the property and not measured."),
 "C15": dict(cat="fault_enumeration", ref="3 (C15)", technique="corruption enumeration (bit flips / byte replacement at enumerated offsets of every persistent file, table truncations) against a written-values oracle",
   text="Small multi-level images (tiny blocks, compressible and raw blocks, multi-record manifest, live WAL with multi-key batches, in a quarter of the images a WAL record of several log fragments) are built by generated workloads; every persistent file is damaged at enumerated offsets (the 3 unchecksummed header bytes of every WAL/manifest fragment always, with every type value and boundary lengths; quick: 2 mutations per offset of CURRENT/manifest/WAL/table tails, every 3rd offset elsewhere; thorough: 11 mutations at every offset and every table truncation) and the copy is opened with a fresh cache: open fails, or every get/scan returns what was written or an error; WAL damage may skip records atomically. Invented values are always violations.",
   note="One open known finding excludes (and counts) stale/missing results: unchecksummed manifest fragment header bytes (signature: the damaged byte is the type byte of a manifest fragment header, or a length byte whose new value makes the fragment extend beyond the end of the file; any other header damage fails the payload checksum and must be detected). A second open finding with the same root cause covers the type byte of a write-ahead-log fragment (its payload is then decoded as a record of its own; signature: the damaged byte is the type byte of a WAL fragment header). Panics on damaged input are counted as detected-ungraceful, not as violations. Corruption is applied while the database is closed."),
 "C16": dict(cat="fault_enumeration", ref="3 (C16)", technique="torn-write enumeration over journalled generated workloads (append cut at 1, n/2, n-1 bytes; recover, write, reopen)",
   text="Every append to a WAL, manifest or CURRENT temp file of a generated workload is cut to 1, n/2, n-1 bytes (thorough: every length for n<=64 plus the header boundary); the image must recover to acknowledged(+in-flight) state with reuse_log_files on and off, accept 1-5 further writes (incl. a 40 kB one) and still contain them after a clean reopen with either setting. Workloads of 2-3 concurrent writers (group commits) are torn the same way.",
   note="Crash model as C02 plus one partially applied append."),
 "C17": dict(cat="exploration", ref="4 (C17)", technique="generated multi-threaded open/close/destroy programs released by barriers on real files (flock), judged by an owner ledger",
   text="2-6 threads run generated rounds of Open/Close/Destroy/Write on raindb's TmpFileSystem (real flock); all operations of a round start together. While a handle not being closed is alive every open and destroy must fail; without an owner at most one racing open succeeds (exactly one when no destroy/close races); owners re-read what they wrote and write a probe after every round; at the end the database opens with all acknowledged data (unless an unowned destroy ran), refuses destroy while open and is destroyed after close.",
   note="Thread-level handles in one process (flock is per open file description, so this exercises the same exclusion as separate processes). Uses temp directories on the real filesystem."),
}

def main():
    commits = subprocess.run(["git", "-C", "/repo", "log", "--format=%h %s"], capture_output=True, text=True).stdout.splitlines()
    hook_commits = [c.split()[0] for c in commits if c.split(" ", 1)[1].startswith("verif hooks:")]
    checks = []
    for pid in sorted(CHECKS):
        c = CHECKS[pid]
        checks.append({
            "property_id": pid,
            "quick_cmd": f"bin/check {pid} quick",
            "thorough_cmd": f"bin/check {pid} thorough",
            "evidence_file": f"evidence/{pid}.json",
            "replay_cmd_template": "bin/check replay {path}",
            "engine": "rdbv",
            "level_claimed": {"category": c["cat"], "text": c["text"], "design_ref": "DESIGN.md section " + c["ref"]},
            "level_note": c["note"],
            "technique": c["technique"],
        })
    props = [json.loads(l)["id"] for l in open(os.path.join(ROOT, "properties.jsonl"))]
    na = [{"property_id": p, "reason": "check not built yet in this session (work in progress; see DESIGN.md section 8)"} for p in props if p not in CHECKS]
    m = {
        "version": 1,
        "setup_cmd": "bin/check build",
        "hooks": {
            "guard": "cargo feature verif_hooks",
            "enable": "harness/Cargo.toml depends on raindb = { path = \"/repo\", features = [\"verif_hooks\"] }; every bin/check invocation runs cargo build --release --offline first, so raindb is rebuilt from /repo's working tree with the hooks on",
            "baseline_off_cmd": BASELINE_OFF,
            "source_commits": hook_commits,
            "add_only": True,
        },
        "engines": [
            {"name": "rdbv", "path": "harness", "serves_properties": sorted(CHECKS), "kind_free_text": "Rust crate: proptest-driven generators, reference models, MemFs/FaultFs filesystems, worker-process runner, replay"},
        ],
        "checks": checks,
        "not_applicable": na,
        "notes": "bin/check <id> <quick|thorough>; VERIF_SEED seeds every random choice; exit 0 held / 1 VIOLATION / 2 inconclusive (watchdog outside C09, build failure). Known findings: KNOWN_FINDINGS.txt; regression replays: regress/<id>/.",
    }
    json.dump(m, open(os.path.join(ROOT, "MANIFEST.json"), "w"), indent=1)
    print("wrote MANIFEST.json with", len(checks), "checks;", len(na), "not_applicable")

main()
