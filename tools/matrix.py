#!/usr/bin/env python3
"""Run every validated seeded change against its property's check and related checks (quick tier),
and (re)generate /verif/seeded/<prop>-<m>/ {patch.diff, demo.diff, meta.json}.
usage: matrix.py [--from-mut] [Cxx ...]"""
import json, os, re, subprocess, sys, glob, shutil
REPO = os.environ.get("MX_REPO", "/repo")
VERIF = os.environ.get("MX_VERIF", "/verif")
REL = {
 "C01": ["C01","C11"], "C02": ["C02","C16","C12"], "C03": ["C03","C11"], "C04": ["C04","C03"],
 "C05": ["C05","C01"], "C06": ["C06","C05"], "C07": ["C07","C09"], "C08": ["C08"], "C09": ["C09","C08"],
 "C10": ["C10"], "C11": ["C11","C08"], "C12": ["C12","C02"], "C13": ["C13","C08"], "C14": ["C14","C13","C08"],
 "C15": ["C15"], "C16": ["C16","C02"], "C17": ["C17"],
}
def sh(cmd, cwd=None, timeout=2400):
    try:
        p = subprocess.run(cmd, shell=True, cwd=cwd, capture_output=True, text=True, timeout=timeout)
        return p.returncode, p.stdout + p.stderr
    except subprocess.TimeoutExpired:
        return 124, "TIMEOUT"
val = {}
for l in open("/tmp/mutval/results.jsonl"):
    d = json.loads(l); val[(d["prop"], d["mutant"])] = d
props = [a for a in sys.argv[1:] if a.startswith("C")] or sorted(REL)
head = sh(f"git -C {REPO} rev-parse --short HEAD")[1].strip()
for prop in props:
    for patch in sorted(glob.glob(os.environ.get("MUT_ROOT","/tmp/mut")+f"/{prop}/_mutants/m*.patch.diff")):
        m = os.path.basename(patch).split(".")[0]
        v = val.get((prop, m))
        if os.path.exists(f"/verif/seeded/{prop}-{m}/meta.json") and not os.environ.get("MATRIX_FORCE"):
            continue
        if not v or v.get("status") != "VALID":
            print(prop, m, "skipped (not validated)"); continue
        base = patch[:-len(".patch.diff")]
        meta_in = json.load(open(base + ".meta.json"))
        rc, out = sh(f"git -C {REPO} status --porcelain --untracked-files=no")
        if out.strip(): print("repo dirty, abort"); sys.exit(2)
        rc, out = sh(f"git apply --3way {patch} || git apply {patch}", cwd=REPO)
        sh("git reset -q", cwd=REPO)
        if rc != 0:
            sh("git reset -q --hard HEAD", cwd=REPO); print(prop, m, "apply failed"); continue
        results = {}
        for chk in REL[prop]:
            rc, out = sh(f"bin/check {chk} quick", cwd=VERIF, timeout=1500)
            summ = re.findall(rf"^{chk} quick: (.*)$", out, re.M)
            viol = re.findall(r"^VIOLATION.*\n\s+(.*)$", out, re.M)
            results[chk] = {"exit": rc, "summary": summ[-1] if summ else "", "first_violation": (viol[0][:300] if viol else "")}
            print(prop, m, chk, "rc=%d" % rc, (viol[0][:120] if viol else ""), flush=True)
        sh("git reset -q --hard HEAD", cwd=REPO)
        d = f"/verif/seeded/{prop}-{m}"
        os.makedirs(d, exist_ok=True)
        shutil.copy(patch, d + "/patch.diff")
        shutil.copy(base + ".demo.diff", d + "/demo.diff")
        orig = base + ".original-patch.txt"
        meta = {
            "property": prop,
            "summary": meta_in.get("summary"),
            "needs_to_manifest": meta_in.get("needs_to_manifest"),
            "files_touched": meta_in.get("files_touched"),
            "demonstration": {"apply": "git apply demo.diff (in a scratch worktree of /repo)", "cmd": v.get("demo_cmd"),
                              "passes_without_change": v["why"]["demo_passes_unchanged"], "fails_with_change": v["why"]["demo_fails_mutated"],
                              "failure_excerpt": v.get("demo_mutated_tail")},
            "existing_suite_with_change": {"cmd": "cargo nextest run --workspace --no-fail-fast --profile pb --offline", "summary": v.get("suite_summary"), "failures": v.get("suite_fails")},
            "validated_at_repo_commit": v.get("head"),
            "adapted_to_later_fix": os.path.exists(orig),
            "what_i_ran": f"tools/validate_mutants.py (scratch worktree /tmp/mutval/wt), then tools/matrix.py: git apply to /repo at {head}, bin/check <id> quick for {REL[prop]}, git reset --hard",
            "checks_run": results,
            "caught_by": [c for c, r in results.items() if r["exit"] == 1],
        }
        json.dump(meta, open(d + "/meta.json", "w"), indent=1)
print("done")
