#!/bin/bash
# tools/mkiso.sh [dir]: isolated copy for sensitivity runs - a worktree of /repo's HEAD at <dir>/repo and a copy of
# /verif (without build output) at <dir>/verif whose harness depends on <dir>/repo. Seeded changes are applied there
# (MX_REPO/MX_VERIF of tools/matrix.py, rematrix.py, check_fix_reverts.py), never to /repo. Remove with tools/mkiso.sh -r [dir].
D=${2:-${1:-/tmp/mx}}
if [ "${1:-}" = "-r" ]; then D=${2:-/tmp/mx}; git -C /repo worktree remove --force "$D/repo"; rm -rf "$D"; exit 0; fi
mkdir -p "$D"
if [ ! -d "$D/repo" ]; then git -C /repo worktree add -q --detach "$D/repo" HEAD; else git -C "$D/repo" checkout -q --detach "$(git -C /repo rev-parse HEAD)"; fi
rsync -a --delete --exclude target --exclude replays --exclude .git /verif/ "$D/verif/"
sed -i "s#path = \"/repo\"#path = \"$D/repo\"#" "$D/verif/harness/Cargo.toml" "$D/verif/fuzz/Cargo.toml" 2>/dev/null
grep -n "path" "$D/verif/harness/Cargo.toml"
