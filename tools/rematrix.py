#!/usr/bin/env python3
"""Re-run each kept seeded change (seeded/<prop>-mN/patch.diff) against its own property's quick check
and refresh meta.json (checks_run[prop], caught_by, rechecked_*). Run from an isolated copy:
  MX_REPO=/tmp/mx/repo MX_VERIF=/tmp/mx/verif python3 tools/rematrix.py [Cxx-mN ...]"""
import json, os, re, subprocess, sys, glob
REPO = os.environ.get("MX_REPO", "/repo")
VERIF = os.environ.get("MX_VERIF", "/verif")
def sh(cmd, cwd=None, timeout=2400):
    try:
        p = subprocess.run(cmd, shell=True, cwd=cwd, capture_output=True, text=True, timeout=timeout)
        return p.returncode, p.stdout + p.stderr
    except subprocess.TimeoutExpired:
        return 124, "TIMEOUT"
head = sh(f"git -C {REPO} rev-parse --short HEAD")[1].strip()
vhead = sh("git -C /verif rev-parse --short HEAD")[1].strip()
dirs = [f"/verif/seeded/{a}" for a in sys.argv[1:]] or sorted(glob.glob("/verif/seeded/C??-m*"))
for d in dirs:
    name = os.path.basename(d); prop = name.split("-")[0]
    meta = json.load(open(d + "/meta.json"))
    rc, out = sh(f"git -C {REPO} status --porcelain --untracked-files=no")
    if out.strip(): print("repo dirty, abort"); sys.exit(2)
    rc, out = sh(f"git apply --3way {d}/patch.diff || git apply {d}/patch.diff", cwd=REPO)
    sh("git reset -q", cwd=REPO)
    if rc != 0:
        sh("git reset -q --hard HEAD", cwd=REPO); print(name, "apply failed", out[-200:]); meta["rechecked_note"] = f"patch no longer applies at {head}"; json.dump(meta, open(d + "/meta.json", "w"), indent=1); continue
    rc, out = sh(f"bin/check {prop} quick", cwd=VERIF, timeout=1500)
    sh("git reset -q --hard HEAD", cwd=REPO)
    summ = re.findall(rf"^{prop} quick: (.*)$", out, re.M)
    viol = re.findall(r"^VIOLATION.*\n\s+(.*)$", out, re.M)
    meta.setdefault("checks_run", {})[prop] = {"exit": rc, "summary": summ[-1] if summ else "", "first_violation": (viol[0][:300] if viol else "")}
    cb = [c for c in meta.get("caught_by", []) if c != prop]
    if rc == 1: cb = [prop] + cb
    meta["caught_by"] = cb
    meta["rechecked_at_repo_commit"] = head
    meta["rechecked_with_verif_commit"] = vhead
    meta.pop("rechecked_note", None)
    json.dump(meta, open(d + "/meta.json", "w"), indent=1)
    print(name, prop, "rc=%d" % rc, (viol[0][:110] if viol else ""), flush=True)
print("done")
