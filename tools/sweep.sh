#!/bin/bash
# tools/sweep.sh <from-seed> <to-seed> [ids...]: run the quick tier of the checks under several seeds
# (silence test of the unchanged tree / hunt for rare cases). Prints one line per run.
cd "$(dirname "$0")/.."
from=$1; to=$2; shift 2
ids=${@:-C01 C02 C03 C04 C05 C06 C07 C08 C09 C10 C11 C12 C13 C14 C15 C16 C17}
for s in $(seq $from $to); do
  for id in $ids; do
    VERIF_HANG_DUMP=${VERIF_HANG_DUMP:-/root/keep/hangdumps} VERIF_SEED=$s bin/check $id quick 2>&1 \
      | grep -E "quick:|VIOLATION|INCONCLUSIVE|^  " | sed "s/^/seed=$s /" | cut -c1-400
  done
done
echo "sweep done $from..$to"
