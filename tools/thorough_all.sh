#!/bin/bash
# tools/thorough_all.sh [ids...]: run the thorough tier of the given checks one after the other.
cd "$(dirname "$0")/.."
ids=${@:-C01 C02 C03 C04 C05 C06 C07 C08 C09 C10 C11 C12 C13 C14 C15 C16 C17}
for id in $ids; do
  t0=$(date +%s)
  VERIF_SEED=${VERIF_SEED:-0} VERIF_HANG_DUMP=${VERIF_HANG_DUMP:-/root/keep/hangdumps} bin/check $id thorough 2>&1 \
    | grep -E "thorough:|VIOLATION|INCONCLUSIVE|KNOWN-FINDING|^  " | cut -c1-400
  echo "== $id thorough exit=${PIPESTATUS[0]} took $(( $(date +%s) - t0 ))s"
done
