#!/bin/bash
# tools/try_all.sh <prop>:<checks,comma> ...   run every delivered mutant of the property against the listed checks
for spec in "$@"; do
  prop=${spec%%:*}; checks=${spec#*:}; checks=${checks//,/ }
  for p in /tmp/mut/$prop/_mutants/m*.patch.diff /verif/seeded/$prop-*/patch.diff; do
    [ -f "$p" ] || continue
    echo "== $prop $(basename $(dirname $p))/$(basename $p)"
    /verif/tools/try_mutant.sh "$p" $checks
  done
done
