#!/bin/bash
# tools/try_mutant.sh <patch.diff> <check id>...   apply a seeded change to $MX_REPO (default /repo), run the checks of
# $MX_VERIF (default /verif; use the isolated copy made by tools/mkiso.sh), undo.
set -u
PATCH="$1"; shift
REPO=${MX_REPO:-/repo}; VERIF=${MX_VERIF:-/verif}
cd "$REPO" || exit 2
if [ -n "$(git status --porcelain --untracked-files=no)" ]; then echo "repo dirty"; exit 2; fi
if ! git apply --3way "$PATCH" 2>/tmp/apply.err; then
  if ! git apply "$PATCH" 2>>/tmp/apply.err; then echo "APPLY-FAILED $(head -3 /tmp/apply.err | tr '\n' ' ')"; git reset -q --hard HEAD; exit 3; fi
fi
git reset -q
for id in "$@"; do
  out=$(cd "$VERIF" && timeout ${MUT_TIMEOUT:-900} bin/check "$id" ${MUT_TIER:-quick} 2>&1)
  rc=$?
  summary=$(echo "$out" | grep -E "^$id (quick|thorough):" | tail -1)
  viol=$(echo "$out" | grep -A1 "^VIOLATION" | grep -v "^VIOLATION\|^--" | head -1 | cut -c1-220)
  echo "  $id rc=$rc ${summary#* } ${viol}"
done
git reset -q --hard HEAD
git status --porcelain --untracked-files=no | head -3
