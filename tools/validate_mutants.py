#!/usr/bin/env python3
"""Validate delivered mutants against /repo HEAD in a scratch worktree:
   demo passes without the change, fails with it; the existing suite stays green with the change.
   usage: validate_mutants.py [Cxx ...]   results appended to /tmp/mutval/results.jsonl"""
import json, os, re, subprocess, sys, glob, time
WT = "/tmp/mutval/wt"
RES = "/tmp/mutval/results.jsonl"
FLAKY = ("os_file_system_tests", "tmp_file_system_tests", "destroy_db_when_the_database_is_still_open")

def sh(cmd, cwd=WT, timeout=1500):
    try:
        p = subprocess.run(cmd, shell=True, cwd=cwd, capture_output=True, text=True, timeout=timeout)
        return p.returncode, (p.stdout + p.stderr)
    except subprocess.TimeoutExpired as e:
        return 124, "TIMEOUT " + str(e)

def reset():
    sh("git checkout -q -- . && git clean -qfd -e target -e _mutants")

def apply(diff):
    rc, out = sh(f"git apply --3way {diff} || git apply {diff}")
    sh("git reset -q")
    return rc == 0, out[-300:]

def main():
    os.makedirs("/tmp/mutval", exist_ok=True)
    if not os.path.isdir(WT):
        subprocess.run(f"git -C /repo worktree add -q --detach {WT} HEAD", shell=True, check=True)
    else:
        head = subprocess.run("git -C /repo rev-parse HEAD", shell=True, capture_output=True, text=True).stdout.strip()
        sh(f"git checkout -q --detach {head}")
    props = sys.argv[1:] or sorted(os.path.basename(p) for p in glob.glob(os.environ.get("MUT_ROOT","/tmp/mut")+"/C??"))
    done = set()
    if os.path.exists(RES):
        for l in open(RES):
            try:
                d = json.loads(l); done.add((d["prop"], d["mutant"], d["head"]))
            except Exception: pass
    head = subprocess.run("git -C /repo rev-parse --short HEAD", shell=True, capture_output=True, text=True).stdout.strip()
    for prop in props:
        for patch in sorted(glob.glob(os.environ.get("MUT_ROOT","/tmp/mut")+f"/{prop}/_mutants/m*.patch.diff")):
            m = os.path.basename(patch).split(".")[0]
            if (prop, m, head) in done: continue
            base = patch[:-len(".patch.diff")]
            demo, meta = base + ".demo.diff", base + ".meta.json"
            r = {"prop": prop, "mutant": m, "head": head, "t": time.strftime("%H:%M:%S")}
            if not (os.path.exists(demo) and os.path.exists(meta)):
                r["status"] = "incomplete-deliverable"; open(RES, "a").write(json.dumps(r) + "\n"); continue
            try:
                cmd = json.load(open(meta)).get("demo_cmd", "")
            except Exception as e:
                cmd = ""
            mm = re.search(r"(cargo test[^#&;|]*)", cmd)
            if not mm:
                r["status"] = "no-demo-cmd"; r["cmd"] = cmd; open(RES, "a").write(json.dumps(r) + "\n"); continue
            tcmd = mm.group(1).strip()
            if "--offline" not in tcmd: tcmd = tcmd.replace("cargo test", "cargo test --offline")
            r["demo_cmd"] = tcmd
            reset()
            ok, out = apply(demo)
            if not ok:
                r["status"] = "demo-does-not-apply"; r["detail"] = out; open(RES, "a").write(json.dumps(r) + "\n"); continue
            rc0, out0 = sh(tcmd + " 2>&1 | tail -40")
            rc0, out0 = sh(tcmd)
            r["demo_unchanged_rc"] = rc0
            ran0 = re.findall(r"test result: (\w+)\. (\d+) passed; (\d+) failed", out0)
            r["demo_unchanged"] = ran0
            ok, out = apply(patch)
            if not ok:
                r["status"] = "patch-does-not-apply"; r["detail"] = out; reset(); open(RES, "a").write(json.dumps(r) + "\n"); continue
            rc1, out1 = sh(tcmd)
            r["demo_mutated_rc"] = rc1
            r["demo_mutated"] = re.findall(r"test result: (\w+)\. (\d+) passed; (\d+) failed", out1)
            r["demo_mutated_tail"] = "\n".join([l for l in out1.splitlines() if "panicked" in l or "assert" in l][:3])[:400]
            # suite with the patch only
            reset()
            ok, out = apply(patch)
            rc2, out2 = sh("cargo nextest run --workspace --no-fail-fast --tool-config-file pb:/w/lib/nextest.toml --profile pb --test-threads 8 --offline", timeout=1800)
            fails = re.findall(r"^\s+FAIL .*?\)\s+(\S.*)$", out2, re.M)
            fails = sorted(set(f.strip() for f in fails))
            r["suite_rc"] = rc2
            r["suite_fails"] = fails
            summ = re.findall(r"Summary.*", out2)
            r["suite_summary"] = summ[-1] if summ else out2[-200:]
            nonflaky = [f for f in fails if not any(k in f for k in FLAKY)]
            passed0 = rc0 == 0 and any(int(p) > 0 for _, p, f in ran0)
            r["status"] = "VALID" if (passed0 and rc1 != 0 and not nonflaky and rc2 in (0, 100)) else "INVALID"
            if rc2 not in (0, 100) and not fails: r["status"] = "INVALID"
            r["why"] = {"demo_passes_unchanged": passed0, "demo_fails_mutated": rc1 != 0, "suite_nonflaky_fails": nonflaky}
            reset()
            open(RES, "a").write(json.dumps(r) + "\n")
            print(prop, m, r["status"], r["why"], flush=True)

main()
